/-
  Model `Trim`: how many workers the pool keeps (worker.go without an idle-worker expiry:
  run / sendToNextChannel / freePoolNode / TunePool / stopAndRemoveAllWorkers).

    run()                 w.pool.PushNode(w.initPoolNode())                         -- start: one idle worker
    sendToNextChannel     node := pool.PopBack(); if nil → initPoolNode()           -- take / create
    freePoolNode(node)    if queues.Len() >= conc || pool.Len() < numMinIdleWorkers() { pool.PushNode(node) }
                          else { node.Stop(); cache.Put(node) }                      -- look (obs), then keep or retire
    TunePool (down)       for shrink > 0 { node := pool.PopBackIfLonger(minIdle); if nil break; node.Stop() … }
    stop / Restart        stopAndRemoveAllWorkers()                                  -- only after every worker came back

  `idle` is the length of the idle list, `out` the number of workers that are out of the list with a
  job (or about to get one), identified by their pool node. A finishing worker LOOKS at the list
  (`look k`: remembers `idle`) and decides later; everything else interleaves in between. It may retire
  only if it saw at least numMinIdleWorkers() ≥ 1 idle workers — the model only uses "≥ 1".
  PopBackIfLonger(m) is one step. `tuneLookOld` / `tunePopOld` are the shrink step of the code BEFORE fix
  c42df87 (look, then pop) — kept to state the defect as a theorem.
-/
namespace VarmqVerif
namespace Trim

inductive Ev where
  | start                      -- run(): the initial idle worker (only on a stopped pool)
  | take (g : Nat)             -- dispatcher: PopBack returned a worker
  | create (g : Nat)           -- dispatcher: PopBack had found the list empty, a new worker is created
  | look (g : Nat)             -- a finishing worker reads pool.Len()
  | keep (g : Nat)             -- … and pushes itself back
  | retire (g : Nat)           -- … or stops itself (only if what it saw was ≥ numMinIdleWorkers() ≥ 1)
  | tune (m : Nat)             -- PopBackIfLonger(m) succeeded: one worker removed and stopped
  | stopAll                    -- stopAndRemoveAllWorkers on a pool with nobody out
  -- the code before c42df87
  | tuneLookOld (g : Nat)      -- TunePool reads pool.Len()
  | tunePopOld (g m : Nat)     -- … and pops later if what it saw was > m
  deriving DecidableEq, Repr, Inhabited

structure State where
  running : Bool := false
  idle : Nat := 0
  out : Nat := 0
  seen : Nat → Option Nat := fun _ => none     -- what a finishing worker (or an old-style tuner) saw
  busy : Nat → Bool := fun _ => false          -- goroutine g is a worker that is out of the list
  nBusy : Nat := 0                             -- ghost: number of busy workers (= out)

def upd {β} (f : Nat → β) (g : Nat) (v : β) : Nat → β := fun x => if x = g then v else f x

@[simp] theorem upd_same {β} (f : Nat → β) (g : Nat) (v : β) : upd f g v g = v := by simp [upd]
@[simp] theorem upd_other {β} (f : Nat → β) (g h : Nat) (v : β) (hne : h ≠ g) : upd f g v h = f h := by simp [upd, hne]

def init : State := {}

/-- `old = true` admits the two-step shrink of the code before the fix -/
def step (old : Bool) (s : State) : Ev → Except String State
  | .start =>
    if s.running then .error "run() on a running pool"
    else .ok { s with running := true, idle := s.idle + 1 }
  | .take g =>
    if s.idle == 0 then .error "PopBack returned a worker from an empty list"
    else if s.busy g then .error "worker taken twice"
    else .ok { s with idle := s.idle - 1, out := s.out + 1, busy := upd s.busy g true, nBusy := s.nBusy + 1, seen := upd s.seen g none }
  | .create g =>
    -- (PopBack found the list empty a moment ago; by now a finishing worker may have pushed itself back)
    if s.busy g then .error "worker created twice"
    else .ok { s with out := s.out + 1, busy := upd s.busy g true, nBusy := s.nBusy + 1, seen := upd s.seen g none }
  | .look g =>
    if !s.busy g then .error "pool.Len() in freePoolNode by a goroutine that is not a worker out of the list"
    else .ok { s with seen := upd s.seen g (some s.idle) }
  | .keep g =>
    if !s.busy g then .error "PushNode by a goroutine that is not a worker out of the list"
    else if s.out == 0 || s.nBusy == 0 then .error "ghost counter out is 0"
    else .ok { s with idle := s.idle + 1, out := s.out - 1, busy := upd s.busy g false, nBusy := s.nBusy - 1, seen := upd s.seen g none }
  | .retire g =>
    if !s.busy g then .error "a goroutine that is not a worker out of the list retires"
    else if s.out == 0 || s.nBusy == 0 then .error "ghost counter out is 0"
    else match s.seen g with
      | some n =>
        if n == 0 then .error "a worker retired although it saw an empty idle list (numMinIdleWorkers() is at least 1)"
        else .ok { s with out := s.out - 1, busy := upd s.busy g false, nBusy := s.nBusy - 1, seen := upd s.seen g none }
      | none => .error "a worker retired without looking at the list"
  | .tune m =>
    if m == 0 then .error "PopBackIfLonger(0): numMinIdleWorkers() is at least 1"
    else if s.idle ≤ m then .error s!"PopBackIfLonger({m}) took a worker from a list of {s.idle}"
    else .ok { s with idle := s.idle - 1 }
  | .stopAll =>
    if s.out != 0 then .error "stopAndRemoveAllWorkers while a worker is out of the list"
    else .ok { s with running := false, idle := 0 }
  | .tuneLookOld g =>
    if !old then .error "two-step shrink (code before c42df87)"
    else .ok { s with seen := upd s.seen g (some s.idle) }
  | .tunePopOld g m =>
    if !old then .error "two-step shrink (code before c42df87)"
    else if m == 0 then .error "numMinIdleWorkers() is at least 1"
    else match s.seen g with
      | some n =>
        if n ≤ m then .error "old shrink loop popped although it saw no surplus"
        else if s.idle == 0 then .error "PopBack returned a worker from an empty list"
        else .ok { s with idle := s.idle - 1, seen := upd s.seen g none }
      | none => .error "old shrink loop popped without looking"

def run (old : Bool) (s : State) : List Ev → Except String State
  | [] => .ok s
  | e :: es => match step old s e with
    | .ok s' => run old s' es
    | .error m => .error m

inductive Reach (old : Bool) : State → Prop
  | init : Reach old init
  | step {s s' : State} (e : Ev) : Reach old s → step old s e = .ok s' → Reach old s'

end Trim
end VarmqVerif
