import VarmqVerif.Spec.Props2
/-
  Model `LifeC`: the lifecycle functions of worker.go (repaired tree) at call granularity.
  Since every lifecycle transition and the context listener's stop run under `w.lifecycle`
  (model `Res` checks on every replayed trace that each status store happens under that lock), a
  call is one atomic step with respect to the other calls and to the listeners.

    start()/bind     startRun: status != initiated → ErrRunningWorker (ignored by the binders);
                     else goListenToContext (one listener per run, if a context is configured); status = running
    pause()          running → paused ; paused, stopped → nil ; initiated → ErrNotRunningWorker
    stop()           stopped → nil ; running, paused → … status = stopped ; cancel() of the run's context ; initiated → ErrNotRunningWorker
    Restart()        (any status) … cancel() the previous run's context, derive a new one, run() (the status stays
                     paused/stopped until run() stores running)
    Resume()         stopped → ErrNotRunningWorker ; initiated → startRun ; running → ErrRunningWorker ; paused → running
    TunePool(n)      not running → ErrNotRunningWorker ; same value → ErrSameConcurrency ; else store
    listener of run k   <-ctx_k.Done() ; lock ; if w.ctx is still ctx_k { stop() }

  The context of run k is done iff the configured context is cancelled, or a later run exists
  (Restart cancelled it), or the run was stopped (stop() calls its cancel function).
-/
namespace VarmqVerif
namespace LifeC
open Spec

structure State where
  ws : WStatus := .initiated
  conc : Nat := 1
  hasCtx : Bool := false
  cfgCancelled : Bool := false
  run : Nat := 0
  runCancelled : Bool := false
  listeners : List Nat := []
  deriving Repr, DecidableEq

inductive Ev where
  | call (c : Call)
  | cancelCfg
  | fire (k : Nat)
  deriving Repr, DecidableEq

/-- run(): start the goroutines of a run (one context listener if a context is configured), status = running -/
@[simp, reducible] def runNew (s : State) : State × Err :=
  ({ s with ws := .running, listeners := if s.hasCtx then s.run :: s.listeners else s.listeners }, .none)

def startRun (s : State) : State × Err :=
  if s.ws != .initiated then (s, .runningWorker) else runNew s

def pause (s : State) : State × Err :=
  match s.ws with
  | .running => ({ s with ws := .paused }, .none)
  | .paused | .stopped => (s, .none)
  | .initiated => (s, .notRunningWorker)

def stop (s : State) : State × Err :=
  match s.ws with
  | .stopped => (s, .none)
  | .running | .paused => ({ s with ws := .stopped, runCancelled := s.hasCtx }, .none)
  | .initiated => (s, .notRunningWorker)

def restart (s : State) : State × Err :=
  let s1 := if s.hasCtx then { s with run := s.run + 1, runCancelled := false } else s
  runNew s1

def resume (s : State) : State × Err :=
  match s.ws with
  | .stopped => (s, .notRunningWorker)
  | .initiated => startRun s
  | .running => (s, .runningWorker)
  | .paused => ({ s with ws := .running }, .none)

def tune (s : State) (n : Int) : State × Err :=
  if s.ws != .running then (s, .notRunningWorker)
  else if C02.limOf 16 n == s.conc then (s, .sameConcurrency)
  else ({ s with conc := C02.limOf 16 n }, .none)

def ctxDone (s : State) (k : Nat) : Bool := s.cfgCancelled || k < s.run || (k == s.run && s.runCancelled)

/-- one step; for API calls the observation is (error, Status() right after the call) -/
def step (s : State) : Ev → Option (State × Option (Err × WStatus))
  | .call c =>
    match c with
    | .bind => let r := startRun s; some (r.1, some (.none, r.1.ws))
    | .pause | .pauseAndWait => let r := pause s; some (r.1, some (r.2, r.1.ws))
    | .stop | .waitAndStop => let r := stop s; some (r.1, some (r.2, r.1.ws))
    | .restart => let r := restart s; some (r.1, some (r.2, r.1.ws))
    | .resume => let r := resume s; some (r.1, some (r.2, r.1.ws))
    | .tune n => let r := tune s n; some (r.1, some (r.2, r.1.ws))
    | _ => some (s, none)
  | .cancelCfg => some ({ s with cfgCancelled := s.hasCtx }, none)
  | .fire k =>
    if s.listeners.contains k && ctxDone s k then
      let s1 := { s with listeners := s.listeners.erase k }
      some (if k == s.run then (stop s1).1 else s1, none)
    else none

/-- the documented machine (Spec.Life.step, DESIGN.md §8 C14) with the configured context -/
structure Ref where
  st : WStatus := .initiated
  conc : Nat := 1
  cancelled : Bool := false
  deriving Repr, DecidableEq

inductive REv | call (c : Call) | cancelCfg | ctxStop | skip
  deriving Repr, DecidableEq

def rstep (r : Ref) : REv → Option (Ref × Option (Err × WStatus))
  | .call c =>
    match Life.step r.st r.conc c with
    | some (e, st') =>
      let conc' := match c, e with | .tune n, .none => C02.limOf 16 n | _, _ => r.conc
      some ({ r with st := st', conc := conc' }, some (e, st'))
    | none => some (r, none)
  | .cancelCfg => some ({ r with cancelled := true }, none)
  | .ctxStop => if r.cancelled && (r.st == .running || r.st == .paused) then some ({ r with st := .stopped }, none) else none
  | .skip => some (r, none)

def run (s : State) : List Ev → Option (State × List (Option (Err × WStatus)))
  | [] => some (s, [])
  | e :: es => match step s e with
    | some (s', o) => match run s' es with
      | some (s'', os) => some (s'', o :: os)
      | none => none
    | none => none

def rrun (r : Ref) : List REv → Option (Ref × List (Option (Err × WStatus)))
  | [] => some (r, [])
  | e :: es => match rstep r e with
    | some (r', o) => match rrun r' es with
      | some (r'', os) => some (r'', o :: os)
      | none => none
    | none => none

/-- how a concrete event is seen by the documented machine -/
def absEv (s : State) : Ev → REv
  | .call c => .call c
  | .cancelCfg => if s.hasCtx then .cancelCfg else .skip
  | .fire k => if k == s.run && s.cfgCancelled && (s.ws == .running || s.ws == .paused) then .ctxStop else .skip

def init (hasCtx : Bool) (conc : Nat) : State := { hasCtx := hasCtx, conc := conc }
def rinit (conc : Nat) : Ref := { conc := conc }

end LifeC
end VarmqVerif
