/-
  Model `Pool`: ownership of pool nodes (internal/pool, internal/linkedlist, worker.go: initPoolNode,
  sendToNextChannel, freePoolNode, goRemoveIdleWorkers, stopAndRemoveAllWorkers, TunePool shrink).

  A node has a 1-slot channel and, while alive, one goroutine in `Serve` ranging over it. Whoever
  takes a node out of the idle list under the list mutex (`PopBack`, or a `Remove` that returned
  true) — or obtained it from the cache — HOLDS it and is the only one allowed to send on its channel
  (a job, or the stop sentinel). A sent job transfers the node to its serving goroutine, which after
  the worker function pushes it back (`PushNode`) or stops itself (`Stop` + `Cache.Put`).
-/
namespace VarmqVerif
namespace Pool

inductive Msg | job (j : Nat) | stop
  deriving DecidableEq, Repr, Inhabited

inductive Loc where
  | unborn                 -- never handed out
  | cached                 -- in the sync.Pool cache
  | fresh (g : Nat)        -- initPoolNode: g got it from the cache and has not yet started its Serve goroutine
  | held (g : Nat)         -- taken by goroutine g (from the cache, from the idle list, or by its server after a job)
  | idle                   -- in the idle list
  | inflight               -- a job is in its channel, on the way to its server
  | stopping (g : Nat)     -- g sent the stop sentinel and still has to Cache.Put it
  deriving DecidableEq, Repr, Inhabited

structure Node where
  loc : Loc := .unborn
  buf : Option Msg := none
  srvs : List Nat := []           -- goroutines in Serve on this node's channel (two for a moment when a stopped node is recycled before its old goroutine has seen the sentinel)
  deriving DecidableEq, Repr, Inhabited

inductive Ev where
  | get (g n : Nat)                    -- Cache.Get returned node n (fresh or recycled)
  | spawn (g n r : Nat)                -- go node.Value.Serve(...): r is the new goroutine
  | push (g n : Nat)                   -- List.PushNode
  | pop (g : Nat) (n : Option Nat)     -- List.PopBack
  | remove (g n : Nat) (ok : Bool)     -- List.Remove
  | sendJob (g n j : Nat)              -- Node.Send
  | sendStop (g n : Nat)               -- Node.Stop
  | recv (r n : Nat) (m : Msg)         -- Serve receives
  | put (g n : Nat)                    -- Cache.Put
  deriving DecidableEq, Repr, Inhabited

structure State where
  nodes : Nat → Node := fun _ => {}
  idle : List Nat := []               -- the idle list, front to back

def upd {β} (f : Nat → β) (g : Nat) (v : β) : Nat → β := fun x => if x = g then v else f x

@[simp] theorem upd_same {β} (f : Nat → β) (g : Nat) (v : β) : upd f g v g = v := by simp [upd]
@[simp] theorem upd_other {β} (f : Nat → β) (g h : Nat) (v : β) (hne : h ≠ g) : upd f g v h = f h := by simp [upd, hne]

def init : State := {}

def step (s : State) : Ev → Except String State
  | .get g n =>
    let nd := s.nodes n
    if nd.loc == .unborn || nd.loc == .cached then .ok { s with nodes := upd s.nodes n { nd with loc := .fresh g } }
    else .error s!"Cache.Get returned node {n} which is in use"
  | .spawn g n r =>
    let nd := s.nodes n
    if nd.loc != .fresh g then .error "Serve goroutine started on a node that was not just obtained from the cache"
    else if nd.srvs.contains r then .error s!"goroutine {r} already serves node {n}"
    else .ok { s with nodes := upd s.nodes n { nd with loc := .held g, srvs := r :: nd.srvs } }
  | .push g n =>
    let nd := s.nodes n
    if nd.loc != .held g then .error s!"PushNode of node {n} by a goroutine that does not hold it"
    else if s.idle.contains n then .error s!"node {n} pushed twice"
    else .ok { s with nodes := upd s.nodes n { nd with loc := .idle }, idle := s.idle ++ [n] }
  | .pop g none =>
    let _ := g
    if s.idle.isEmpty then .ok s else .error "PopBack returned nil on a non-empty idle list"
  | .pop g (some n) =>
    if s.idle.getLast? != some n then .error s!"PopBack returned node {n} which is not the last idle node"
    else .ok { s with nodes := upd s.nodes n { s.nodes n with loc := .held g }, idle := s.idle.dropLast }
  | .remove g n ok =>
    if ok != s.idle.contains n then .error s!"Remove({n}) returned {ok}"
    else if ok then .ok { s with nodes := upd s.nodes n { s.nodes n with loc := .held g }, idle := s.idle.erase n }
    else .ok s
  | .sendJob g n j =>
    let nd := s.nodes n
    if nd.loc != .held g then .error s!"Send on node {n} by a goroutine that does not hold it"
    else if nd.buf.isSome then .error "send on a full node channel (the sender blocks until the pending sentinel is consumed)"
    else .ok { s with nodes := upd s.nodes n { nd with loc := .inflight, buf := some (.job j) } }
  | .sendStop g n =>
    let nd := s.nodes n
    if nd.loc != .held g then .error s!"Stop of node {n} by a goroutine that does not hold it"
    else if nd.buf.isSome then .error "send on a full node channel (the sender blocks until the pending sentinel is consumed)"
    else .ok { s with nodes := upd s.nodes n { nd with loc := .stopping g, buf := some .stop } }
  | .recv r n m =>
    let nd := s.nodes n
    if !nd.srvs.contains r then .error s!"receive on node {n} by a goroutine that does not serve it"
    else if nd.buf != some m then .error s!"received a message that was not sent"
    else match m with
      | .job _ => .ok { s with nodes := upd s.nodes n { nd with buf := none, loc := .held r } }
      | .stop => .ok { s with nodes := upd s.nodes n { nd with buf := none, srvs := nd.srvs.erase r } }
  | .put g n =>
    let nd := s.nodes n
    if nd.loc != .stopping g then .error s!"Cache.Put of node {n} by a goroutine that did not stop it"
    else .ok { s with nodes := upd s.nodes n { nd with loc := .cached } }

def run (s : State) : List Ev → Except String State
  | [] => .ok s
  | e :: es => match step s e with
    | .ok s' => run s' es
    | .error m => .error m

inductive Reach : State → Prop
  | init : Reach init
  | step {s s' : State} (e : Ev) : Reach s → step s e = .ok s' → Reach s'

end Pool
end VarmqVerif
