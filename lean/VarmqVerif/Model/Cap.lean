/-
  Model `Cap`: how many workers exist, against the slot accounting (worker.go: reserve / release, sendToNextChannel,
  freePoolNode, the pool goroutine's wrapper, goRemoveIdleWorkers, TunePool's shrink, stopAndRemoveAllWorkers).

    reserve()            curProcessing: c → c+1                                   -- reserve   (a dispatcher holds a slot)
    release() by the dispatcher (nothing to dispatch after all)                     -- unreserve
    sendToNextChannel    PopBack → node            hand the job to an idle worker  -- take
                         PopBack → nil             create a worker                  -- create    (the idle list was empty)
    pool goroutine       … freePoolNode(node): PushNode(node)                       -- push      (the worker is idle again)
                                            or Stop()+Cache.Put                     -- retire    (it ends)
                         release()                                                  -- release   (only then its slot is free)
    reaper / TunePool / stopAndRemoveAllWorkers take an idle worker out and stop it -- remove
    run()                PushNode(initPoolNode())                                   -- start

  Counts only. `maxLim` is the largest concurrency limit seen so far; that curProcessing never exceeds it is theorem
  `Res.cur_le_maxConc` (C02) for the real protocol and a guard of `reserve` here, checked on every explored trace.
  The order "node back first, slot afterwards" in the pool goroutine is what makes the number of workers follow the slots.
-/
namespace VarmqVerif
namespace Cap

inductive Ev where
  | lim (n : Nat) | start | reserve | unreserve | take | create | push | retire | release | remove
  deriving DecidableEq, Repr, Inhabited

structure State where
  maxLim : Nat := 0
  cur : Nat := 0        -- curProcessing
  hold : Nat := 0       -- slots held by dispatchers that have no worker for them yet
  busy : Nat := 0       -- workers out of the idle list with a job
  rel : Nat := 0        -- pool goroutines that are done with their node and still hold their slot
  idle : Nat := 0       -- idle workers
  deriving DecidableEq, Repr, Inhabited

def init : State := {}

/-- worker goroutines that exist: idle ones and those out with a job -/
def alive (s : State) : Nat := s.idle + s.busy

def step (s : State) : Ev → Except String State
  | .lim n => .ok { s with maxLim := max s.maxLim n }
  | .start =>
    if alive s != 0 then .error "run() while workers of the previous run exist"
    else if s.maxLim == 0 then .error "run() before any concurrency limit"
    else .ok { s with idle := 1 }
  | .reserve =>
    if s.cur ≥ s.maxLim then .error s!"slot taken although curProcessing = {s.cur} has reached the largest limit so far ({s.maxLim})"
    else .ok { s with cur := s.cur + 1, hold := s.hold + 1 }
  | .unreserve =>
    if s.hold == 0 || s.cur == 0 then .error "a dispatcher gave back a slot it does not hold"
    else .ok { s with cur := s.cur - 1, hold := s.hold - 1 }
  | .take =>
    if s.hold == 0 then .error "a job was handed to a worker without a slot"
    else if s.idle == 0 then .error "PopBack returned a worker from an empty idle list"
    else .ok { s with hold := s.hold - 1, idle := s.idle - 1, busy := s.busy + 1 }
  | .create =>
    if s.hold == 0 then .error "a worker was created without a slot"
    else if s.idle != 0 then .error "a worker was created although an idle one existed"
    else .ok { s with hold := s.hold - 1, busy := s.busy + 1 }
  | .push =>
    if s.busy == 0 then .error "PushNode by a goroutine that is not a worker out of the list"
    else .ok { s with busy := s.busy - 1, rel := s.rel + 1, idle := s.idle + 1 }
  | .retire =>
    if s.busy == 0 then .error "a goroutine that is not a worker out of the list retires"
    else .ok { s with busy := s.busy - 1, rel := s.rel + 1 }
  | .release =>
    if s.rel == 0 || s.cur == 0 then .error "a pool goroutine gave its slot back before it was done with its node (or twice)"
    else .ok { s with rel := s.rel - 1, cur := s.cur - 1 }
  | .remove =>
    if s.idle == 0 then .error "an idle worker was removed from an empty idle list"
    else .ok { s with idle := s.idle - 1 }

def run (s : State) : List Ev → Except String State
  | [] => .ok s
  | e :: es => match step s e with
    | .ok s' => run s' es
    | .error m => .error m

inductive Reach : State → Prop
  | init : Reach init
  | step {s s' : State} (e : Ev) : Reach s → step s e = .ok s' → Reach s'

end Cap
end VarmqVerif
