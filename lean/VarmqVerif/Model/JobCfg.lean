/-
  Model `JobCfg`: config.go `loadJobConfigs` / `WithJobId`, group_job.go `generateGroupId`, and the
  nil-function branches of main.go `Func` / `ErrFunc` / `ResultFunc`.

    loadJobConfigs(qConfig, config...)   c := jobConfigs{Id: qConfig.jobIdGenerator()}; for each option: option(&c)
    WithJobId(id)                        if id == "" { return }; c.Id = id
    generateGroupId(id)                  "g:" + id
-/
namespace VarmqVerif
namespace JobCfg

/-- an option is WithJobId(id) -/
def applyOpt (cur : String) (id : String) : String := if id = "" then cur else id

def loadJobConfigs (generated : String) (opts : List String) : String := opts.foldl applyOpt generated

def groupId (id : String) : String := "g:" ++ id

/-- what the three helpers do with the submitted function -/
inductive Helper | func | errFunc | resultFunc
  deriving DecidableEq, Repr

inductive Outcome | ran | panicNil | errNil
  deriving DecidableEq, Repr

def helperOutcome (h : Helper) (fnIsNil : Bool) : Outcome :=
  if !fnIsNil then .ran else match h with
    | .func => .panicNil          -- panic(errNilFunction): contained by the worker wrapper
    | .errFunc | .resultFunc => .errNil

end JobCfg
end VarmqVerif
