/-
  Model `Sig2`: `Sig` (Model/Sig.lean) generalised to several runs of the worker: Stop closes the
  signal channel, Restart makes a new one and starts a new event loop, the previous run's event loop
  may still be in the middle of an activation. One queue; any number of event loops, channels,
  other goroutines.

    closeChannels()   close(w.eventLoopSignal); w.eventLoopSignal = nil        -- closeSig (under w.mx and w.lifecycle)
    Restart()         … w.eventLoopSignal = make(chan struct{}, 1) … run()     -- makeSig
    run()             goEventLoop() [spawnD] … status.Store(running) ; notify()
    notify()          select { case w.eventLoopSignal <- struct{}{}: default: } -- on a nil channel: the default branch
    event loop        `for range signal` ends when its channel is closed and drained -- recvClosed
-/
namespace VarmqVerif
namespace Sig2

abbrev running : Nat := 1
abbrev paused : Nat := 2
abbrev stopped : Nat := 3

inductive DPh where
  | none                   -- not an event loop (or one that has ended)
  | parked | fresh | sawRunning | sawCur (c : Nat) | sawRoom | busy | exiting
  deriving DecidableEq, Repr, Inhabited

/-- will evaluate the whole loop condition again before parking -/
def DPh.willEval : DPh → Bool
  | .fresh | .sawRunning | .sawCur _ | .sawRoom | .busy => true
  | _ => false

inductive Ev where
  | makeSig (g ch : Nat)
  | closeSig (g : Nat)
  | spawnD (g d : Nat)                -- goEventLoop(): d listens on the current channel
  | recvTok (d : Nat)
  | recvClosed (d : Nat)
  | dStatus (d v : Nat) | dCur (d v : Nat) | dConc (d v : Nat) | dLen (d n : Nat)
  | dCasOk (d : Nat) | dDeq (d : Nat) | dRel (d res : Nat)
  | enq (g : Nat) | deqX (g : Nat) | relX (g res : Nat)
  | stStatus (g v : Nat) | stConc (g v : Nat)
  | notify (g : Nat) (sent : Bool)
  deriving DecidableEq, Repr, Inhabited

structure State where
  ws : Nat := 0
  cur : Nat := 0
  conc : Nat := 1
  qlen : Nat := 0
  chan : Option Nat := none            -- w.eventLoopSignal (none = nil)
  tok : Nat → Bool := fun _ => false
  closed : Nat → Bool := fun _ => false
  made : Nat → Bool := fun _ => false
  dph : Nat → DPh := fun _ => .none
  dch : Nat → Nat := fun _ => 0
  ds : List Nat := []                  -- goroutines started as event loops so far
  owes : Nat → Nat := fun _ => 0
  nOwes : Nat := 0

def upd {β} (f : Nat → β) (g : Nat) (v : β) : Nat → β := fun x => if x = g then v else f x

@[simp] theorem upd_same {β} (f : Nat → β) (g : Nat) (v : β) : upd f g v g = v := by simp [upd]
@[simp] theorem upd_other {β} (f : Nat → β) (g h : Nat) (v : β) (hne : h ≠ g) : upd f g v h = f h := by simp [upd, hne]

def init (conc : Nat) : State := { conc := conc }

def owe (s : State) (g : Nat) : State := { s with owes := upd s.owes g (s.owes g + 1), nOwes := s.nOwes + 1 }

def isD (s : State) (d : Nat) : Bool := s.dph d != .none

/-- an event loop that has not ended listens on channel `ch` -/
def liveOn (s : State) (ch : Nat) : Bool := s.ds.any (fun d => s.dph d != .none && s.dch d == ch)

def step (s : State) : Ev → Except String State
  | .makeSig g ch =>
    let _ := g
    if s.made ch then .error "signal channel made twice"
    else if s.chan.isSome then .error "a new signal channel replaces one that was not closed"
    else if s.ws == running then .error "signal channel replaced while running"
    else .ok { s with chan := some ch, made := upd s.made ch true }
  | .closeSig g =>
    let _ := g
    match s.chan with
    | some ch =>
      if s.ws == running then .error "signal channel closed while running"
      else .ok { s with chan := none, closed := upd s.closed ch true }
    | none => .error "close of the nil signal channel"
  | .spawnD g d =>
    let _ := g
    match s.chan with
    | some ch =>
      if s.dph d != .none then .error "goroutine is already an event loop"
      else .ok { s with dph := upd s.dph d .parked, dch := upd s.dch d ch, ds := d :: s.ds }
    | none => .error "event loop started on a nil channel"
  | .recvTok d =>
    if !isD s d then .error "receive on the signal channel by a goroutine that is not an event loop"
    else if !s.tok (s.dch d) then .error "receive on an empty signal channel"
    else if s.dph d != .parked then .error "event loop receives before finishing its activation"
    else .ok { s with tok := upd s.tok (s.dch d) false, dph := upd s.dph d .fresh }
  | .recvClosed d =>
    if !isD s d then .error "not an event loop"
    else if !(s.closed (s.dch d)) || s.tok (s.dch d) then .error "range over the signal channel ended although it is open or holds a token"
    else if s.dph d != .parked then .error "event loop ends before finishing its activation"
    else .ok { s with dph := upd s.dph d .none }
  | .dStatus d v =>
    if !isD s d then .error "loop condition evaluated by a goroutine that is not an event loop"
    else if v != s.ws then .error s!"IsRunning: loaded {v}, model has {s.ws}"
    else if !(s.dph d == .fresh || s.dph d == .busy) then .error "IsRunning() out of sequence"
    else .ok { s with dph := upd s.dph d (if v == running then .sawRunning else .exiting) }
  | .dCur d v =>
    if v != s.cur then .error s!"loaded cur={v}, model has {s.cur}"
    else match s.dph d with
      | .sawRunning => .ok { s with dph := upd s.dph d (.sawCur v) }
      | .exiting => .ok { s with dph := upd s.dph d .parked }
      | _ => .error "cur loaded out of sequence in the event loop"
  | .dConc d v =>
    if v != s.conc then .error s!"loaded conc={v}, model has {s.conc}"
    else match s.dph d with
      | .sawCur c => .ok { s with dph := upd s.dph d (if c < v then .sawRoom else .exiting) }
      | _ => .error "conc loaded out of sequence in the event loop"
  | .dLen d n =>
    if n != s.qlen then .error s!"queues.Len() = {n}, model has {s.qlen}"
    else if s.dph d != .sawRoom then .error "queues.Len() out of sequence in the event loop"
    else .ok { s with dph := upd s.dph d (if n > 0 then .busy else .exiting) }
  | .dCasOk d =>
    if s.dph d != .busy then .error "reserve outside processNextJob" else .ok { s with cur := s.cur + 1 }
  | .dDeq d =>
    if s.dph d != .busy then .error "dequeue outside processNextJob"
    else if s.qlen == 0 then .error "dequeue from an empty queue"
    else .ok { s with qlen := s.qlen - 1 }
  | .dRel d res =>
    if s.dph d != .busy then .error "release outside processNextJob"
    else if s.cur == 0 then .error "release: cur is 0"
    else if res != s.cur - 1 then .error s!"release: result {res}, model has {s.cur - 1}"
    else .ok { s with cur := s.cur - 1 }
  | .enq g => .ok (owe { s with qlen := s.qlen + 1 } g)
  | .deqX g =>
    let _ := g
    if s.qlen == 0 then .error "dequeue from an empty queue" else .ok { s with qlen := s.qlen - 1 }
  | .relX g res =>
    if isD s g then .error "runner release by an event loop"
    else if s.cur == 0 then .error "release: cur is 0"
    else if res != s.cur - 1 then .error s!"release: result {res}, model has {s.cur - 1}"
    else .ok (owe { s with cur := s.cur - 1 } g)
  | .stStatus g v =>
    if v == running then
      match s.chan with
      | some ch =>
        if !liveOn s ch then .error "status running stored without an event loop on the signal channel"
        else .ok (owe { s with ws := v } g)
      | none => .error "status running stored while the signal channel is nil"
    else .ok { s with ws := v }
  | .stConc g v =>
    if v > s.conc then .ok (owe { s with conc := v } g) else .ok { s with conc := v }
  | .notify g sent =>
    match s.chan with
    | some ch =>
      if sent == s.tok ch then .error s!"notify: send result {sent} with token {s.tok ch}"
      else if s.owes g == 0 then .ok { s with tok := upd s.tok ch true }
      else if s.nOwes == 0 then .error "ghost counter nOwes is 0"
      else .ok { s with tok := upd s.tok ch true, owes := upd s.owes g (s.owes g - 1), nOwes := s.nOwes - 1 }
    | none =>
      -- nil channel: the select takes its default branch
      if sent then .error "notify: sent on a nil channel"
      else if s.owes g == 0 then .ok s
      else if s.nOwes == 0 then .error "ghost counter nOwes is 0"
      else .ok { s with owes := upd s.owes g (s.owes g - 1), nOwes := s.nOwes - 1 }

def run (s : State) : List Ev → Except String State
  | [] => .ok s
  | e :: es => match step s e with
    | .ok s' => run s' es
    | .error m => .error m

inductive Reach : State → Prop
  | init (c : Nat) : Reach (init c)
  | step {s s' : State} (e : Ev) : Reach s → step s e = .ok s' → Reach s'

def Dispatchable (s : State) : Prop := s.ws = running ∧ s.cur < s.conc ∧ 0 < s.qlen

/-- the current signal channel holds a token -/
def TokCur (s : State) : Prop := ∃ ch, s.chan = some ch ∧ s.tok ch = true

/-- an event loop that has not ended listens on the current signal channel, which is open -/
def Listening (s : State) : Prop :=
  ∃ ch, s.chan = some ch ∧ s.closed ch = false ∧ ∃ d ∈ s.ds, s.dph d ≠ .none ∧ s.dch d = ch

end Sig2
end VarmqVerif
