/-
  Model `Sig`: the wake-up protocol between the event loop and everybody who can make work
  dispatchable (worker.go, repaired tree):

    event loop   for range signal {                                   -- recvTok
                   for IsRunning() && cur.Load() < conc.Load() && queues.Len() > 0 {   -- dStatus, dCur, dConc, dLen
                     processNextJob()       -- reserve (dCasOk: cur+1) … dequeue (dDeq: qlen-1) … release (dRel: cur-1) … Node.Send
                   }
                   releaseWaiters(cur.Load())                          -- dCur in phase `exiting`
                 }
    notify()     select { case signal <- struct{}{}: default: }        -- sets the 1-slot token
    Add          Enqueue (qlen+1) ; … ; notify()
    runner       … release() (cur-1) ; incCompleted ; notify()
    Resume / startRun   status.Store(running) ; notify()
    TunePool     concurrency.Store(n) ; if n > old { notify() }

  One dispatcher goroutine, one signal channel (executions with Stop/Restart are outside this
  model: the driver reports them as not applicable). The condition of the inner loop is evaluated
  by four separate loads, each an event; everybody else interleaves freely.
  `owes g` counts notify() calls that goroutine g still has to make because it made work
  dispatchable; `nOwes` is their sum (ghost; guards check both).
-/
namespace VarmqVerif
namespace Sig

abbrev running : Nat := 1

inductive DPh where
  | parked                 -- blocked in `for range signal`, or on its way there (condition came out false)
  | fresh                  -- will evaluate the whole loop condition from scratch
  | sawRunning             -- IsRunning() was true
  | sawCur (c : Nat)       -- cur loaded
  | sawRoom                -- c < conc
  | busy                   -- inside processNextJob
  | exiting                -- a component was false; next: releaseWaiters(cur.Load())
  deriving DecidableEq, Repr, Inhabited

def DPh.active : DPh → Bool
  | .parked | .exiting => false
  | _ => true

inductive Ev where
  | recvTok (g : Nat)
  | dStatus (g v : Nat)
  | dCur (g v : Nat)
  | dConc (g v : Nat)
  | dLen (g n : Nat)
  | dCasOk (g : Nat)              -- reserve(): successful CAS cur → cur+1
  | dDeq (g : Nat)                -- the dispatcher dequeued an item
  | dRel (g res : Nat)            -- release() by the dispatcher
  | enq (g : Nat)                 -- an item became visible in the queue (Enqueue returned true)
  | deqX (g : Nat)                -- an item removed by somebody else (Purge)
  | relX (g res : Nat)            -- release() by a runner
  | stStatus (g v : Nat)
  | stConc (g v : Nat)
  | notify (g : Nat) (sent : Bool)     -- the non-blocking send on the signal channel
  deriving DecidableEq, Repr, Inhabited

structure State where
  ws : Nat := 0
  cur : Nat := 0
  conc : Nat := 1
  qlen : Nat := 0
  tok : Bool := false
  disp : Option Nat := none          -- the dispatcher goroutine, once it has shown up
  dph : DPh := .parked
  owes : Nat → Nat := fun _ => 0
  nOwes : Nat := 0

def upd {β} (f : Nat → β) (g : Nat) (v : β) : Nat → β := fun x => if x = g then v else f x

@[simp] theorem upd_same {β} (f : Nat → β) (g : Nat) (v : β) : upd f g v g = v := by simp [upd]
@[simp] theorem upd_other {β} (f : Nat → β) (g h : Nat) (v : β) (hne : h ≠ g) : upd f g v h = f h := by simp [upd, hne]

def init (conc : Nat) : State := { conc := conc }

def owe (s : State) (g : Nat) : State := { s with owes := upd s.owes g (s.owes g + 1), nOwes := s.nOwes + 1 }

def isDisp (s : State) (g : Nat) : Bool := s.disp == some g

def step (s : State) : Ev → Except String State
  | .recvTok g =>
    if s.disp.isSome && s.disp != some g then .error "a second event loop receives on the signal channel"
    else if !s.tok then .error "receive on an empty signal channel"
    else if s.dph != .parked then .error "event loop receives before finishing its activation"
    else .ok { s with tok := false, disp := some g, dph := .fresh }
  | .dStatus g v =>
    if !isDisp s g then .error "loop condition evaluated by a goroutine that is not the event loop"
    else if v != s.ws then .error s!"IsRunning: loaded {v}, model has {s.ws}"
    else if !(s.dph == .fresh || s.dph == .busy) then .error "IsRunning() out of sequence"
    else .ok { s with dph := if v == running then .sawRunning else .exiting }
  | .dCur g v =>
    if !isDisp s g then .error "not the event loop"
    else if v != s.cur then .error s!"loaded cur={v}, model has {s.cur}"
    else match s.dph with
      | .sawRunning => .ok { s with dph := .sawCur v }
      | .exiting => .ok { s with dph := .parked }
      | _ => .error "cur loaded out of sequence in the event loop"
  | .dConc g v =>
    if !isDisp s g then .error "not the event loop"
    else if v != s.conc then .error s!"loaded conc={v}, model has {s.conc}"
    else match s.dph with
      | .sawCur c => .ok { s with dph := if c < v then .sawRoom else .exiting }
      | _ => .error "conc loaded out of sequence in the event loop"
  | .dLen g n =>
    if !isDisp s g then .error "not the event loop"
    else if n != s.qlen then .error s!"queues.Len() = {n}, model has {s.qlen}"
    else if s.dph != .sawRoom then .error "queues.Len() out of sequence in the event loop"
    else .ok { s with dph := if n > 0 then .busy else .exiting }
  | .dCasOk g =>
    if !isDisp s g then .error "reserve by a goroutine that is not the event loop"
    else if s.dph != .busy then .error "reserve outside processNextJob"
    else .ok { s with cur := s.cur + 1 }
  | .dDeq g =>
    if !isDisp s g then .error "dequeue by a goroutine that is not the event loop"
    else if s.dph != .busy then .error "dequeue outside processNextJob"
    else if s.qlen == 0 then .error "dequeue from an empty queue"
    else .ok { s with qlen := s.qlen - 1 }
  | .dRel g res =>
    if !isDisp s g then .error "not the event loop"
    else if s.dph != .busy then .error "release outside processNextJob"
    else if s.cur == 0 then .error "release: cur is 0"
    else if res != s.cur - 1 then .error s!"release: result {res}, model has {s.cur - 1}"
    else .ok { s with cur := s.cur - 1 }
  | .enq g => .ok (owe { s with qlen := s.qlen + 1 } g)
  | .deqX g =>
    let _ := g
    if s.qlen == 0 then .error "dequeue from an empty queue" else .ok { s with qlen := s.qlen - 1 }
  | .relX g res =>
    if isDisp s g then .error "runner release by the event loop"
    else if s.cur == 0 then .error "release: cur is 0"
    else if res != s.cur - 1 then .error s!"release: result {res}, model has {s.cur - 1}"
    else .ok (owe { s with cur := s.cur - 1 } g)
  | .stStatus g v =>
    if v == running then .ok (owe { s with ws := v } g) else .ok { s with ws := v }
  | .stConc g v =>
    if v > s.conc then .ok (owe { s with conc := v } g) else .ok { s with conc := v }
  | .notify g sent =>
    if sent == s.tok then .error s!"notify: send result {sent} with token {s.tok}"
    else if s.owes g == 0 then .ok { s with tok := true }
    else if s.nOwes == 0 then .error "ghost counter nOwes is 0"
    else .ok { s with tok := true, owes := upd s.owes g (s.owes g - 1), nOwes := s.nOwes - 1 }

def run (s : State) : List Ev → Except String State
  | [] => .ok s
  | e :: es => match step s e with
    | .ok s' => run s' es
    | .error m => .error m

inductive Reach : State → Prop
  | init (c : Nat) : Reach (init c)
  | step {s s' : State} (e : Ev) : Reach s → step s e = .ok s' → Reach s'

/-- work can be dispatched right now -/
def Dispatchable (s : State) : Prop := s.ws = running ∧ s.cur < s.conc ∧ 0 < s.qlen

/-- nobody is going to look: no token, no pending notify, the event loop parked or about to park -/
def Asleep (s : State) : Prop := s.tok = false ∧ s.nOwes = 0 ∧ s.dph.active = false

end Sig
end VarmqVerif
