/-
  Model `Disp`: execution order against hand-out order (worker.go: goEventLoop / processNextJob /
  sendToNextChannel / the pool goroutine's wrapper).

  One dispatcher goroutine takes jobs out of the queues one after the other (`deq j`: Dequeue returned j;
  the order of these events IS the hand-out order of the containers, which the FIFO/priority-queue
  refinements of C04 relate to the order of acceptance). A dequeued job is in flight until it is `done`
  (its slot was given back: after the worker function and Close, or because the job turned out to be
  cancelled / undecodable and was skipped). Pool goroutines `enter` the worker function later, in any order.

  The only thing this model takes from the slot accounting is its bound: a job is dequeued only while
  fewer than `maxLim` jobs are in flight, `maxLim` being the largest concurrency limit seen so far.
  For the real protocol (CAS loop, re-check, TunePool, stale dispatcher loops) that bound is theorem
  `Res.busy_le_limit` (C02/C18); here it is a guard of `deq`, checked on every explored trace.
-/
namespace VarmqVerif
namespace Disp

inductive Ev where
  | lim (n : Nat)          -- a concurrency limit n is (or was) in effect
  | deq (j : Nat)          -- the dispatcher's Dequeue returned job j
  | enter (j : Nat)        -- a pool goroutine entered the worker function for j
  | done (j : Nat)         -- the slot of j was given back (finished, or skipped without running)
  deriving DecidableEq, Repr, Inhabited

structure State where
  maxLim : Nat := 0
  deqd : List Nat := []        -- hand-out order, oldest first
  entered : List Nat := []     -- execution (start) order, oldest first
  gone : List Nat := []        -- jobs whose slot has been given back
  deriving DecidableEq, Repr, Inhabited

def init : State := {}

/-- jobs holding a slot -/
def inflight (s : State) : List Nat := s.deqd.filter (fun i => !s.gone.contains i)

/-- the jobs handed out before j that have neither started nor been skipped/finished -/
def waitingAhead (s : State) (j : Nat) : List Nat :=
  (s.deqd.takeWhile (· != j)).filter (fun i => !s.entered.contains i && !s.gone.contains i)

def step (s : State) : Ev → Except String State
  | .lim n => .ok { s with maxLim := max s.maxLim n }
  | .deq j =>
    if s.deqd.contains j then .error s!"job {j} dequeued twice"
    else if (inflight s).length ≥ s.maxLim then
      .error s!"job {j} dequeued although {(inflight s).length} jobs are in flight and the largest limit so far is {s.maxLim}"
    else .ok { s with deqd := s.deqd ++ [j] }
  | .enter j =>
    if !s.deqd.contains j then .error s!"job {j} entered the worker function without having been dequeued"
    else if s.entered.contains j then .error s!"job {j} entered the worker function twice"
    else if s.gone.contains j then .error s!"job {j} entered the worker function after its slot was given back"
    else .ok { s with entered := s.entered ++ [j] }
  | .done j =>
    if !s.deqd.contains j then .error s!"slot given back for job {j} which was not dequeued"
    else if s.gone.contains j then .error s!"slot of job {j} given back twice"
    else .ok { s with gone := s.gone ++ [j] }

def run (s : State) : List Ev → Except String State
  | [] => .ok s
  | e :: es => match step s e with
    | .ok s' => run s' es
    | .error m => .error m

inductive Reach : State → Prop
  | init : Reach init
  | step {s s' : State} (e : Ev) : Reach s → step s e = .ok s' → Reach s'

end Disp
end VarmqVerif
