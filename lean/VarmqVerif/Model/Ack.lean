/-
  Model `Ack`: an acknowledging adapter (Spec of IPersistentQueue / IDistributedQueue as the
  library uses it) together with the library's calls on it:

    Add                     adapter.Enqueue(bytes)                       -- enq
    processNextJob          adapter.DequeueWithAckId()  → (bytes, ackId) -- deq: pending → unacked
                            parse / cast / claim may fail                -- the delivery is dropped, never acknowledged
    runner                  workerFunc(j) ; … ; j.Close() → ack(): adapter.Acknowledge(ackId)
    process death           any prefix of an execution is a crash point; `recover` is what a fresh
                            process finds: unacknowledged deliveries are pending again

  Items are identified by the sequence number the adapter gave them at Enqueue. Guards that encode
  the library's program order (Acknowledge only by the closer of the job, after the worker function
  returned, once) are theorems of the `Job` model; here they are checked on every replayed trace.
-/
namespace VarmqVerif
namespace Ack

inductive Ev where
  | enq (ok : Bool)                 -- Enqueue; on success the item gets the next sequence number
  | deq (x : Nat)                   -- DequeueWithAckId delivered item x (ack id = x)
  | deqFail
  | enter (x : Nat) | exit (x : Nat)
  | ack (x : Nat) (ok : Bool)       -- Acknowledge(ack id of x)
  | recover
  deriving DecidableEq, Repr, Inhabited

structure State where
  next : Nat := 0
  accepted : List Nat := []         -- ghost
  pending : List Nat := []
  unacked : List Nat := []
  acked : List Nat := []
  entered : List Nat := []          -- deliveries (of the current process) whose worker function was entered
  exited : List Nat := []
  ackCalled : List Nat := []
  processed : List Nat := []        -- ghost: items whose worker function has returned in some process
  deriving Repr, DecidableEq

def init : State := {}

def step (s : State) : Ev → Except String State
  | .enq ok =>
    if ok then .ok { s with next := s.next + 1, accepted := s.next :: s.accepted, pending := s.pending ++ [s.next] }
    else .ok s
  | .deq x =>
    if !s.pending.contains x then .error s!"adapter delivered item {x} which is not pending"
    else .ok { s with pending := s.pending.erase x, unacked := x :: s.unacked }
  | .deqFail => .ok s
  | .enter x =>
    if !s.unacked.contains x then .error s!"worker function entered for item {x} which was not delivered"
    else if s.entered.contains x then .error s!"item {x} entered twice in one process"
    else .ok { s with entered := x :: s.entered }
  | .exit x =>
    if !s.entered.contains x || s.exited.contains x then .error s!"exit of item {x} without entry"
    else .ok { s with exited := x :: s.exited, processed := x :: s.processed }
  | .ack x ok =>
    if !s.exited.contains x then .error s!"Acknowledge for item {x} before its worker function returned"
    else if s.ackCalled.contains x then .error s!"Acknowledge for item {x} called twice"
    else if ok then
      if !s.unacked.contains x then .error s!"adapter acknowledged item {x} which is not unacknowledged"
      else .ok { s with unacked := s.unacked.erase x, acked := x :: s.acked, ackCalled := x :: s.ackCalled }
    else .ok { s with ackCalled := x :: s.ackCalled }
  | .recover =>
    .ok { s with pending := s.unacked.reverse ++ s.pending, unacked := [], entered := [], exited := [], ackCalled := [] }

def run (s : State) : List Ev → Except String State
  | [] => .ok s
  | e :: es => match step s e with
    | .ok s' => run s' es
    | .error m => .error m

inductive Reach : State → Prop
  | init : Reach init
  | step {s s' : State} (e : Ev) : Reach s → step s e = .ok s' → Reach s'

end Ack
end VarmqVerif
