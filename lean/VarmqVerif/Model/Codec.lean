/-
  Model of the job status codec in /repo/job.go: `Status()`, `Json()`, `parseToJob`.

  `Json()` marshals a `jobView{Id, Status, Payload}` with encoding/json and `parseToJob`
  unmarshals it; the JSON layer itself (and the payload codec of the type parameter `T`) is not
  modelled: the wire format is abstracted to the decoded view `Envelope π` (= `jobView[T]`), i.e.
  we assume `json.Unmarshal (json.Marshal v) = v` for the three fields. What is modelled is the
  status-string table in the two `switch` statements and the data flow of the three fields.

  Core-only imports; everything is executable.
-/

namespace VarmqVerif
namespace Codec

/--
```go
const (
	created status = iota   // 0
	queued                  // 1
	processing              // 2
	finished                // 3
	closed                  // 4
)
```
-/
inductive JStatus where
  | created
  | queued
  | processing
  | finished
  | closed
  deriving DecidableEq, Repr

/-- The numeric value of the Go constant (`iota` order). -/
def JStatus.toNat : JStatus → Nat
  | .created => 0
  | .queued => 1
  | .processing => 2
  | .finished => 3
  | .closed => 4

/-- Inverse of `toNat`; `none` for values that are not a declared constant. -/
def JStatus.ofNat? : Nat → Option JStatus
  | 0 => some .created
  | 1 => some .queued
  | 2 => some .processing
  | 3 => some .finished
  | 4 => some .closed
  | _ => none

def JStatus.all : List JStatus := [.created, .queued, .processing, .finished, .closed]

/-- The table (constant value, string) shared by `Status()` and `parseToJob`; a generated
facts file can be compared against this definition. -/
def statusStrings : List (Nat × String) :=
  [(0, "Created"), (1, "Queued"), (2, "Processing"), (3, "Finished"), (4, "Closed")]

/--
`Status()` on the raw `uint32` held in `j.status`:
```go
switch j.status.Load() {
case created:    return "Created"
case queued:     return "Queued"
case processing: return "Processing"
case finished:   return "Finished"
case closed:     return "Closed"
default:         return "Unknown"
}
```
-/
def renderNat : Nat → String
  | 0 => "Created"
  | 1 => "Queued"
  | 2 => "Processing"
  | 3 => "Finished"
  | 4 => "Closed"
  | _ => "Unknown"

/-- `Status()` for a declared status constant. -/
def render (s : JStatus) : String := renderNat s.toNat

/--
The `switch view.Status` of `parseToJob`:
```go
switch view.Status {
case "Created":    j.status.Store(created)
case "Queued":     j.status.Store(queued)
case "Processing": j.status.Store(processing)
case "Finished":   j.status.Store(finished)
case "Closed":     j.status.Store(closed)
default:           return nil, fmt.Errorf("invalid status: %s", view.Status)
}
```
`none` is the `default` branch.
-/
def parse (str : String) : Option JStatus :=
  if str = "Created" then some .created
  else if str = "Queued" then some .queued
  else if str = "Processing" then some .processing
  else if str = "Finished" then some .finished
  else if str = "Closed" then some .closed
  else none

/-- `jobView[T]` (`{"id": …, "status": …, "data": …}`), the decoded wire form. -/
structure Envelope (π : Type) where
  id : String
  status : String
  payload : π
  deriving Repr

/-- The fields of `job[T]` that take part in serialisation. -/
structure Job (π : Type) where
  id : String
  status : JStatus
  payload : π
  deriving Repr

/--
```go
func (j *job[T]) Json() ([]byte, error) {
	view := jobView[T]{ Id: j.ID(), Status: j.Status(), Payload: j.data }
	return json.Marshal(view)
}
```
(up to `json.Marshal`).
-/
def toEnvelope {π : Type} (j : Job π) : Envelope π :=
  { id := j.id, status := render j.status, payload := j.payload }

/--
```go
func parseToJob[T any](data []byte) (any, error) {
	var view jobView[T]
	if err := json.Unmarshal(data, &view); err != nil { return nil, … }
	j := newJob(view.Payload, jobConfigs{ Id: view.Id })
	switch view.Status { … default: return nil, fmt.Errorf("invalid status: %s", view.Status) }
	return j, nil
}
```
(after a successful `json.Unmarshal`).
-/
def parseToJob {π : Type} (e : Envelope π) : Except String (Job π) :=
  match parse e.status with
  | some s => .ok { id := e.id, status := s, payload := e.payload }
  | none => .error ("invalid status: " ++ e.status)

end Codec
end VarmqVerif
