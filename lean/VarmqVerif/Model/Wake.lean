/-
  Model `Wake`: `Sig` (the event loop's wake-up protocol, see Model/Sig.lean) extended with the
  condition-variable side (worker.go, repaired tree):

    release()            releaseWaiters(cur.Add(^uint32(0)))
    pause()              status.Store(paused) ; releaseWaiters(cur.Load())
    releaseWaiters(p)    if p != 0 { return }; w.mx.Lock(); w.waiters.Broadcast(); w.mx.Unlock()
    event loop           … after the inner loop: releaseWaiters(cur.Load())
    WaitUntilFinished    w.mx.Lock(); for condition() { w.waiters.Wait() }; w.mx.Unlock()
    condition()          switch status.Load() { running: Len() > 0 || cur.Load() > 0 ; paused, stopped: cur.Load() > 0 ; default: false }

  `Cond.Wait` is the atomic pair (unlock, park) followed later by (wake, lock). Everybody who owes a
  Broadcast (`owesBc`) needs the mutex first, so no Broadcast can slip between a waiter evaluating its
  condition and parking. One dispatcher, one signal channel, one queue (as in `Sig`).
-/
namespace VarmqVerif
namespace Wake

abbrev running : Nat := 1
abbrev paused : Nat := 2
abbrev stopped : Nat := 3

inductive DPh where
  | parked | fresh | sawRunning | sawCur (c : Nat) | sawRoom | busy | exiting
  deriving DecidableEq, Repr, Inhabited

def DPh.active : DPh → Bool
  | .parked => false
  | _ => true

/-- the event loop will evaluate its whole condition again before parking -/
def DPh.willEval : DPh → Bool
  | .parked | .exiting => false
  | _ => true

/-- phase of a goroutine inside WaitUntilFinished -/
inductive WPh where
  | idle
  | locked                 -- holds w.mx, about to evaluate condition()
  | sawStatus (v : Nat)
  | sawLen0                -- running and Len() = 0: cur decides
  | willPark               -- condition() came out true
  | willReturn             -- condition() came out false
  | parked                 -- in Cond.Wait, not yet signalled
  | signalled              -- Broadcast reached it; has to re-acquire w.mx
  deriving DecidableEq, Repr, Inhabited

inductive Ev where
  | recvTok (g : Nat)
  | dStatus (g v : Nat) | dCur (g v : Nat) | dConc (g v : Nat) | dLen (g n : Nat)
  | dCasOk (g : Nat) | dDeq (g : Nat) | dRel (g res : Nat)
  | enq (g : Nat) | deqX (g : Nat) | relX (g res : Nat)
  | stStatus (g v : Nat) | stConc (g v : Nat)
  | pCur (g v : Nat)                    -- pause(): releaseWaiters(cur.Load()) right after status.Store(paused)
  | notify (g : Nat) (sent : Bool)
  -- condition variable side
  | lockMx (g : Nat) | unlockMx (g : Nat)
  | bcast (g n : Nat)                   -- Broadcast; n = number of goroutines it wakes
  | wStatus (g v : Nat) | wLen (g n : Nat) | wCur (g c : Nat)
  | wPark (g : Nat)                     -- Cond.Wait: unlock + park, atomically
  | wWake (g : Nat)                     -- leaves Cond.Wait (then re-locks with lockMx)
  deriving DecidableEq, Repr, Inhabited

structure State where
  ws : Nat := 0
  cur : Nat := 0
  conc : Nat := 1
  qlen : Nat := 0
  tok : Bool := false
  disp : Option Nat := none
  dph : DPh := .parked
  owes : Nat → Nat := fun _ => 0
  nOwes : Nat := 0
  owesBc : Nat → Nat := fun _ => 0     -- Broadcasts goroutine g still has to perform (its release / load returned 0)
  nOwesBc : Nat := 0
  mx : Option Nat := none              -- holder of w.mx (write lock)
  wph : Nat → WPh := fun _ => .idle
  nParked : Nat := 0                   -- goroutines parked in Cond.Wait and not yet signalled

def upd {β} (f : Nat → β) (g : Nat) (v : β) : Nat → β := fun x => if x = g then v else f x

@[simp] theorem upd_same {β} (f : Nat → β) (g : Nat) (v : β) : upd f g v g = v := by simp [upd]
@[simp] theorem upd_other {β} (f : Nat → β) (g h : Nat) (v : β) (hne : h ≠ g) : upd f g v h = f h := by simp [upd, hne]

def init (conc : Nat) : State := { conc := conc }

def owe (s : State) (g : Nat) : State := { s with owes := upd s.owes g (s.owes g + 1), nOwes := s.nOwes + 1 }
def oweBc (s : State) (g : Nat) : State := { s with owesBc := upd s.owesBc g (s.owesBc g + 1), nOwesBc := s.nOwesBc + 1 }

def isDisp (s : State) (g : Nat) : Bool := s.disp == some g

def isQuietStatus (v : Nat) : Bool := v == paused || v == stopped

def step (s : State) : Ev → Except String State
  | .recvTok g =>
    if s.disp.isSome && s.disp != some g then .error "a second event loop receives on the signal channel"
    else if !s.tok then .error "receive on an empty signal channel"
    else if s.dph != .parked then .error "event loop receives before finishing its activation"
    else if s.owesBc g != 0 then .error "event loop receives while it still owes a Broadcast"
    else .ok { s with tok := false, disp := some g, dph := .fresh }
  | .dStatus g v =>
    if !isDisp s g then .error "loop condition evaluated by a goroutine that is not the event loop"
    else if v != s.ws then .error s!"IsRunning: loaded {v}, model has {s.ws}"
    else if !(s.dph == .fresh || s.dph == .busy) then .error "IsRunning() out of sequence"
    else if s.owesBc g != 0 then .error "event loop continues while it still owes a Broadcast"
    else .ok { s with dph := if v == running then .sawRunning else .exiting }
  | .dCur g v =>
    if !isDisp s g then .error "not the event loop"
    else if v != s.cur then .error s!"loaded cur={v}, model has {s.cur}"
    else match s.dph with
      | .sawRunning => .ok { s with dph := .sawCur v }
      | .exiting => if v == 0 then .ok (oweBc { s with dph := .parked } g) else .ok { s with dph := .parked }
      | _ => .error "cur loaded out of sequence in the event loop"
  | .dConc g v =>
    if !isDisp s g then .error "not the event loop"
    else if v != s.conc then .error s!"loaded conc={v}, model has {s.conc}"
    else match s.dph with
      | .sawCur c => .ok { s with dph := if c < v then .sawRoom else .exiting }
      | _ => .error "conc loaded out of sequence in the event loop"
  | .dLen g n =>
    if !isDisp s g then .error "not the event loop"
    else if n != s.qlen then .error s!"queues.Len() = {n}, model has {s.qlen}"
    else if s.dph != .sawRoom then .error "queues.Len() out of sequence in the event loop"
    else .ok { s with dph := if n > 0 then .busy else .exiting }
  | .dCasOk g =>
    if !isDisp s g then .error "reserve by a goroutine that is not the event loop"
    else if s.dph != .busy then .error "reserve outside processNextJob"
    else .ok { s with cur := s.cur + 1 }
  | .dDeq g =>
    if !isDisp s g then .error "dequeue by a goroutine that is not the event loop"
    else if s.dph != .busy then .error "dequeue outside processNextJob"
    else if s.qlen == 0 then .error "dequeue from an empty queue"
    else .ok { s with qlen := s.qlen - 1 }
  | .dRel g res =>
    if !isDisp s g then .error "not the event loop"
    else if s.dph != .busy then .error "release outside processNextJob"
    else if s.cur == 0 then .error "release: cur is 0"
    else if res != s.cur - 1 then .error s!"release: result {res}, model has {s.cur - 1}"
    else if res == 0 then .ok (oweBc { s with cur := s.cur - 1 } g) else .ok { s with cur := s.cur - 1 }
  | .enq g => .ok (owe { s with qlen := s.qlen + 1 } g)
  | .deqX g =>
    -- Purge: the remover notifies when it is done
    if s.qlen == 0 then .error "dequeue from an empty queue" else .ok (owe { s with qlen := s.qlen - 1 } g)
  | .relX g res =>
    if isDisp s g then .error "runner release by the event loop"
    else if s.cur == 0 then .error "release: cur is 0"
    else if res != s.cur - 1 then .error s!"release: result {res}, model has {s.cur - 1}"
    else if res == 0 then .ok (oweBc (owe { s with cur := s.cur - 1 } g) g) else .ok (owe { s with cur := s.cur - 1 } g)
  | .stStatus g v =>
    if v == running then .ok (owe { s with ws := v } g) else .ok { s with ws := v }
  | .stConc g v =>
    if v > s.conc then .ok (owe { s with conc := v } g) else .ok { s with conc := v }
  | .pCur g v =>
    if v != s.cur then .error s!"pause: loaded cur={v}, model has {s.cur}"
    else if v == 0 then .ok (oweBc s g) else .ok s
  | .notify g sent =>
    if sent == s.tok then .error s!"notify: send result {sent} with token {s.tok}"
    else if s.owes g == 0 then .ok { s with tok := true }
    else if s.nOwes == 0 then .error "ghost counter nOwes is 0"
    else .ok { s with tok := true, owes := upd s.owes g (s.owes g - 1), nOwes := s.nOwes - 1 }
  | .lockMx g =>
    if s.mx.isSome then .error "w.mx locked twice"
    else match s.wph g with
      | .signalled => .ok { s with mx := some g, wph := upd s.wph g .locked }
      | .idle => .ok { s with mx := some g }      -- a broadcaster, a fresh WaitUntilFinished (see wStatus), or another user of w.mx
      | _ => .error "w.mx locked by a goroutine that is inside WaitUntilFinished"
  | .unlockMx g =>
    if s.mx != some g then .error "w.mx unlocked by a goroutine that does not hold it"
    else match s.wph g with
      | .willReturn => .ok { s with mx := none, wph := upd s.wph g .idle }
      | .idle => .ok { s with mx := none }
      | _ => .error "w.mx unlocked in the middle of condition()"
  | .bcast g n =>
    if s.mx != some g then .error "Broadcast without holding w.mx"
    else if s.owesBc g == 0 then .error "Broadcast that nobody owed"
    else if s.nOwesBc == 0 then .error "ghost counter nOwesBc is 0"
    else if n != s.nParked then .error s!"Broadcast woke {n} goroutines, model has {s.nParked} parked"
    else .ok { s with owesBc := upd s.owesBc g (s.owesBc g - 1), nOwesBc := s.nOwesBc - 1, nParked := 0,
                      wph := fun x => if s.wph x == .parked then .signalled else s.wph x }
  | .wStatus g v =>
    if s.mx != some g then .error "condition() evaluated without holding w.mx"
    else if v != s.ws then .error s!"condition(): loaded status {v}, model has {s.ws}"
    else if !(s.wph g == .idle || s.wph g == .locked) then .error "condition() out of sequence"
    else if v == running then .ok { s with wph := upd s.wph g (.sawStatus v) }
    else if isQuietStatus v then .ok { s with wph := upd s.wph g (.sawStatus v) }
    else .ok { s with wph := upd s.wph g .willReturn }
  | .wLen g n =>
    if s.mx != some g then .error "condition() evaluated without holding w.mx"
    else if n != s.qlen then .error s!"condition(): Len() = {n}, model has {s.qlen}"
    else if s.wph g != .sawStatus running then .error "Len() out of sequence in condition()"
    else .ok { s with wph := upd s.wph g (if n > 0 then .willPark else .sawLen0) }
  | .wCur g c =>
    if s.mx != some g then .error "condition() evaluated without holding w.mx"
    else if c != s.cur then .error s!"condition(): loaded cur {c}, model has {s.cur}"
    else match s.wph g with
      | .sawLen0 => .ok { s with wph := upd s.wph g (if c > 0 then .willPark else .willReturn) }
      | .sawStatus v => if isQuietStatus v then .ok { s with wph := upd s.wph g (if c > 0 then .willPark else .willReturn) } else .error "cur loaded before Len() on a running worker"
      | _ => .error "cur loaded out of sequence in condition()"
  | .wPark g =>
    if isDisp s g then .error "Cond.Wait by the event loop goroutine"
    else if s.mx != some g then .error "Cond.Wait without holding w.mx"
    else if s.wph g != .willPark then .error "Cond.Wait although condition() was false"
    else .ok { s with mx := none, wph := upd s.wph g .parked, nParked := s.nParked + 1 }
  | .wWake g =>
    if s.wph g != .signalled then .error "Cond.Wait returned without a Broadcast" else .ok s

def run (s : State) : List Ev → Except String State
  | [] => .ok s
  | e :: es => match step s e with
    | .ok s' => run s' es
    | .error m => .error m

inductive Reach : State → Prop
  | init (c : Nat) : Reach (init c)
  | step {s s' : State} (e : Ev) : Reach s → step s e = .ok s' → Reach s'

def Dispatchable (s : State) : Prop := s.ws = running ∧ s.cur < s.conc ∧ 0 < s.qlen

/-- the condition a WaitUntilFinished caller waits on -/
def CondTrue (s : State) : Prop :=
  (s.ws = running ∧ (0 < s.qlen ∨ 0 < s.cur)) ∨ ((s.ws = paused ∨ s.ws = stopped) ∧ 0 < s.cur)

/-- nothing is going to happen on the library side: no token, no owed notify or Broadcast, the event
    loop parked, no slot in use, w.mx free -/
def Idle (s : State) : Prop :=
  s.tok = false ∧ s.nOwes = 0 ∧ s.nOwesBc = 0 ∧ s.dph = .parked ∧ s.cur = 0 ∧ s.mx = none

end Wake
end VarmqVerif
