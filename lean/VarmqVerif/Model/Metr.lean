/-
  Model `Metr`: the metrics counters of one worker (metrics.go, main.go wrappers, worker.go runner).

    Add / AddAll      … Enqueue(j) returned true ; metrics.incSubmitted()                    -- enqOk, incSub
    wrapper (main.go) err = wf(j) [enter … exit oc] ; failed or panicked → incFailed() else incSuccessful()
    runner            … w.release() ; w.metrics.incCompleted() ; notify()                    -- incComp
    Metrics()         Submitted() / Completed() / Successful() / Failed(): one atomic load each   -- ld

  Any number of goroutines; every event carries the value the atomic operation returned, and the
  guards compare it with the model's counter, so a replayed trace checks the counters exactly.
  `ph g` is where goroutine g is between the entry of a worker function and its incCompleted().
-/
namespace VarmqVerif
namespace Metr

inductive Ph where
  | idle
  | running
  | exited (bad : Bool)      -- the worker function returned (bad: with an error or by panicking)
  | counted                  -- incSuccessful / incFailed done, incCompleted to come
  deriving DecidableEq, Repr, Inhabited

inductive Ctr where | sub | comp | succ | fail
  deriving DecidableEq, Repr, Inhabited

inductive Ev where
  | enqOk (g : Nat)                 -- a submission was accepted by its queue
  | incSub (g res : Nat)
  | enter (g : Nat)
  | exit (g : Nat) (bad : Bool)
  | incSucc (g res : Nat)
  | incFail (g res : Nat)
  | incComp (g res : Nat)
  | ld (c : Ctr) (v : Nat)
  deriving DecidableEq, Repr, Inhabited

structure State where
  sub : Nat := 0
  comp : Nat := 0
  succ : Nat := 0
  fail : Nat := 0
  ph : Nat → Ph := fun _ => .idle
  owes : Nat → Nat := fun _ => 0     -- accepted submissions of g not yet counted
  -- ghost history
  accepted : Nat := 0
  entered : Nat := 0
  exited : Nat := 0
  exitedBad : Nat := 0
  -- ghost census of phases (guards keep them in step with `ph` and `owes`)
  nOwes : Nat := 0
  nRunning : Nat := 0
  nExited : Nat := 0
  nExitedBad : Nat := 0
  nCounted : Nat := 0

def upd {β} (f : Nat → β) (g : Nat) (v : β) : Nat → β := fun x => if x = g then v else f x

@[simp] theorem upd_same {β} (f : Nat → β) (g : Nat) (v : β) : upd f g v g = v := by simp [upd]
@[simp] theorem upd_other {β} (f : Nat → β) (g h : Nat) (v : β) (hne : h ≠ g) : upd f g v h = f h := by simp [upd, hne]

def init : State := {}

def State.ctr (s : State) : Ctr → Nat
  | .sub => s.sub | .comp => s.comp | .succ => s.succ | .fail => s.fail

def step (s : State) : Ev → Except String State
  | .enqOk g => .ok { s with owes := upd s.owes g (s.owes g + 1), nOwes := s.nOwes + 1, accepted := s.accepted + 1 }
  | .incSub g res =>
    if s.owes g == 0 then .error "incSubmitted without an accepted submission by this goroutine"
    else if s.nOwes == 0 then .error "ghost counter nOwes is 0"
    else if res != s.sub + 1 then .error s!"incSubmitted returned {res}, model has {s.sub + 1}"
    else .ok { s with sub := s.sub + 1, owes := upd s.owes g (s.owes g - 1), nOwes := s.nOwes - 1 }
  | .enter g =>
    if s.ph g != .idle then .error "worker function entered by a goroutine that has not finished its previous job"
    else .ok { s with ph := upd s.ph g .running, entered := s.entered + 1, nRunning := s.nRunning + 1 }
  | .exit g bad =>
    if s.ph g != .running then .error "worker function exit without entry"
    else if s.nRunning == 0 then .error "ghost counter nRunning is 0"
    else .ok { s with ph := upd s.ph g (.exited bad), exited := s.exited + 1, exitedBad := s.exitedBad + (if bad then 1 else 0),
                      nRunning := s.nRunning - 1, nExited := s.nExited + 1, nExitedBad := s.nExitedBad + (if bad then 1 else 0) }
  | .incSucc g res =>
    if s.ph g != .exited false then .error "incSuccessful for a job that did not return successfully"
    else if s.nExited == 0 then .error "ghost counter nExited is 0"
    else if res != s.succ + 1 then .error s!"incSuccessful returned {res}, model has {s.succ + 1}"
    else .ok { s with succ := s.succ + 1, ph := upd s.ph g .counted, nExited := s.nExited - 1, nCounted := s.nCounted + 1 }
  | .incFail g res =>
    if s.ph g != .exited true then .error "incFailed for a job that did not fail or panic"
    else if s.nExited == 0 || s.nExitedBad == 0 then .error "ghost counter nExited is 0"
    else if res != s.fail + 1 then .error s!"incFailed returned {res}, model has {s.fail + 1}"
    else .ok { s with fail := s.fail + 1, ph := upd s.ph g .counted, nExited := s.nExited - 1, nExitedBad := s.nExitedBad - 1, nCounted := s.nCounted + 1 }
  | .incComp g res =>
    if s.ph g != .counted then .error "incCompleted by a goroutine whose job has not been counted successful or failed"
    else if s.nCounted == 0 then .error "ghost counter nCounted is 0"
    else if res != s.comp + 1 then .error s!"incCompleted returned {res}, model has {s.comp + 1}"
    else .ok { s with comp := s.comp + 1, ph := upd s.ph g .idle, nCounted := s.nCounted - 1 }
  | .ld c v =>
    if v != s.ctr c then .error s!"counter read {v}, model has {s.ctr c}" else .ok s

def run (s : State) : List Ev → Except String State
  | [] => .ok s
  | e :: es => match step s e with
    | .ok s' => run s' es
    | .error m => .error m

inductive Reach : State → Prop
  | init : Reach init
  | step {s s' : State} (e : Ev) : Reach s → step s e = .ok s' → Reach s'

/-- nobody is between the entry of a worker function and incCompleted, nobody owes an incSubmitted -/
def AtRest (s : State) : Prop := (∀ g, s.ph g = .idle) ∧ (∀ g, s.owes g = 0)

end Metr
end VarmqVerif
