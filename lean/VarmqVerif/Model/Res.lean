/-
  Model `Res`: the reservation / barrier protocol of worker.go (repaired tree):

    reserve()            for { c := cur.Load(); if c >= conc.Load() { return false }; if cur.CAS(c, c+1) { taken = c+1; break } }
                         if s := status.Load(); s == paused || s == stopped || taken > conc.Load() { release(); return false }
                         (`||` short-circuits: the limit is loaded a second time only when the status is neither
                          paused nor stopped)
    release()            releaseWaiters(cur.Add(^uint32(0)))
    processNextJob()     reserve → next/dequeue/claim (any failure: release) → Node.Send(job)
    runner (initPoolNode closure)   workerFunc(j) ; … ; release()
    pause()/stop()/Restart()/Resume()/startRun()   status loads and stores, all under w.lifecycle
    WaitUntilFinished()  condition(): status.Load(); (paused|stopped) cur.Load() > 0

  Granularity: every atomic operation on `status`, `curProcessing`, `concurrency` is one event, in
  program order per goroutine; acquisitions of `w.lifecycle` are events; the hand-over of a job to
  a pool node, the entry and the exit of the worker function, API call and return are events.
  Queues, job status words, the signal channel and the pool are NOT part of this model (they are
  the environment: a dispatcher may give up its slot at any time — `relD` — which is what happens
  when next/dequeue/claim fails).

  Dispatcher phases: idle → (CAS ok: `tk g` := the value taken) reserved → (status re-check `ldStatusD`:
  quiet → mustRelease | otherwise → checked) → (limit re-check `ldConcR`: `tk g` > limit → mustRelease |
  otherwise → holding).  A dispatcher in phase `checked` has passed the status re-check and will not
  look at the status again: only the limit can still send it back.  It is therefore counted in `nHold`
  together with the `holding` ones (`nHold` = dispatchers past the status re-check), not in `nRes`:
  `Quiet` (nHold = 0 …) and the budget after a plain Pause (`nHold + handed`) have to cover it, because
  it may still hand over a job although the status has meanwhile become paused.  A failed limit
  re-check moves it back from `nHold` to `nRes`.

  The counters `nRes … nDone` are ghost bookkeeping. Guards check BOTH the per-goroutine phase and
  the counter (`> 0` before every decrement) so that no counting lemma over goroutines is needed:
  an implementation trace on which the two disagree is rejected by `step`, i.e. reported as a
  correspondence break.
-/
namespace VarmqVerif
namespace Res

/-- worker status values (worker.go iota): 0 initiated, 1 running, 2 paused, 3 stopped -/
abbrev initiated : Nat := 0
abbrev running : Nat := 1
abbrev paused : Nat := 2
abbrev stopped : Nat := 3

/-- dispatcher-side phase of a goroutine inside processNextJob -/
inductive DPh | idle | reserved | checked | mustRelease | holding
  deriving DecidableEq, Repr, Inhabited

/-- runner-side phase of a pool goroutine -/
inductive RPh | idle | executing (k : Nat) | done
  deriving DecidableEq, Repr, Inhabited

/-- API calls that matter here -/
inductive Api | pause | pauseAndWait | stop | waitAndStop | resume | restart | bind | tune | wuf | ctxStop | other
  deriving DecidableEq, Repr, Inhabited

def Api.isBarrier : Api → Bool
  | .pauseAndWait | .stop | .waitAndStop => true
  | _ => false

def Api.isResumer : Api → Bool
  | .resume | .restart | .bind => true
  | _ => false

inductive Ev where
  -- dispatcher: reserve()
  | ldCurD (g v : Nat)                 -- c := cur.Load()
  | ldConcD (g v : Nat)                -- conc.Load()
  | casCur (g old new : Nat) (ok : Bool)
  | ldStatusD (g v : Nat)              -- status re-check after the CAS
  | ldConcR (g v : Nat)                -- limit re-check after the status re-check: taken > conc.Load()
  | relD (g res : Nat)                 -- release() by a dispatcher that holds a slot
  | send (g : Nat)                     -- Node.Send(job): the slot goes with the job
  -- runner
  | enter (g k : Nat)
  | exit (g k : Nat)
  | relR (g res : Nat)                 -- release() by the runner after the job
  -- lifecycle (under w.lifecycle)
  | lockL (g : Nat) | unlockL (g : Nat)
  | ldStatusL (g v : Nat)              -- status.Load() in pause/stop/Restart/Resume/startRun
  | stStatus (g v : Nat)
  | stConc (g v : Nat)                 -- TunePool / constructor
  -- barrier condition (WaitUntilFinished)
  | ldStatusB (g v : Nat)
  | ldCurB (g v : Nat)
  -- other readers (NumProcessing, IsRunning in the event loop, …): value must be the current one
  | ldStatusAny (g v : Nat) | ldCurAny (g v : Nat) | ldConcAny (g v : Nat)
  -- API
  | call (g : Nat) (a : Api)
  | ret (g : Nat) (a : Api) (ok : Bool)   -- ok: returned nil
  deriving DecidableEq, Repr, Inhabited

structure State where
  ws : Nat := initiated
  cur : Nat := 0
  conc : Nat := 1
  maxConc : Nat := 1                 -- ghost: largest value `conc` ever had
  ph : Nat → DPh := fun _ => .idle
  lc : Nat → Option Nat := fun _ => none     -- value of cur loaded by reserve()
  lcc : Nat → Option Nat := fun _ => none    -- value of conc loaded by reserve()
  tk : Nat → Nat := fun _ => 0               -- value taken by g's last successful CAS (`taken` in reserve())
  rph : Nat → RPh := fun _ => .idle
  nRes : Nat := 0                    -- dispatchers in phase reserved / mustRelease
  nHold : Nat := 0                   -- dispatchers in phase checked / holding (past the status re-check)
  handed : Nat := 0                  -- jobs sent to a node, worker function not yet entered
  nExec : Nat := 0
  nDone : Nat := 0
  lockL : Option Nat := none         -- holder of w.lifecycle
  inCall : Nat → Option Api := fun _ => none
  ls : Nat → Option Nat := fun _ => none     -- last status loaded by a lifecycle function of g
  bst : Nat → Option Nat := fun _ => none    -- status loaded by g's barrier condition
  checked : Nat → Bool := fun _ => false     -- g's barrier condition came out false on paused/stopped
  openResumers : Nat := 0            -- ghost: Resume/Restart/Bind calls in progress
  dirty : Nat → Bool := fun _ => false       -- ghost: a resumer call was open at some time during g's current call
  frozen : Bool := false             -- ghost: a PauseAndWait/Stop/WaitAndStop returned nil and no resumer was called since
  starts : Nat := 0                  -- ghost: worker function entries so far
  budget : Option Nat := none        -- ghost: after a plain Pause returned nil: how many jobs may still start (those already dispatched)

def upd {β} (f : Nat → β) (g : Nat) (v : β) : Nat → β := fun x => if x = g then v else f x

@[simp] theorem upd_same {β} (f : Nat → β) (g : Nat) (v : β) : upd f g v g = v := by simp [upd]
@[simp] theorem upd_other {β} (f : Nat → β) (g h : Nat) (v : β) (hne : h ≠ g) : upd f g v h = f h := by simp [upd, hne]

def init (conc : Nat) : State := { conc := conc, maxConc := conc }

def isQuietStatus (v : Nat) : Bool := v == paused || v == stopped

/-- which status values a call may store -/
def mayStore (a : Api) (v : Nat) : Bool :=
  match a with
  | .pause | .pauseAndWait => v == paused
  | .stop | .waitAndStop | .ctxStop => v == paused || v == stopped
  | .resume | .bind => v == running
  | .restart => v == paused || v == initiated || v == running
  | _ => false

def step (s : State) : Ev → Except String State
  | .ldCurD g v =>
    if s.ph g != .idle then .error "reserve: load of cur while holding a slot"
    else if v != s.cur then .error s!"reserve: loaded cur={v}, model has {s.cur}"
    else .ok { s with lc := upd s.lc g (some v), lcc := upd s.lcc g none }
  | .ldConcD g v =>
    if v != s.conc then .error s!"reserve: loaded conc={v}, model has {s.conc}"
    else if (s.lc g).isNone then .error "reserve: conc loaded before cur"
    else .ok { s with lcc := upd s.lcc g (some v) }
  | .casCur g old new ok =>
    match s.lc g, s.lcc g with
    | some c, some cc =>
      if s.ph g != .idle then .error "reserve: CAS while holding a slot"
      else if old != c then .error s!"reserve: CAS expects {old}, loaded value was {c}"
      else if new != old + 1 then .error "reserve: CAS does not add exactly one"
      else if !(c < cc) then .error s!"reserve: CAS although cur {c} >= conc {cc}"
      else if ok != (s.cur == old) then .error s!"reserve: CAS result {ok} but cur={s.cur}"
      else if ok then
        .ok { s with cur := new, ph := upd s.ph g .reserved, tk := upd s.tk g new, nRes := s.nRes + 1,
                     lc := upd s.lc g none, lcc := upd s.lcc g none }
      else .ok { s with lc := upd s.lc g none, lcc := upd s.lcc g none }
    | _, _ => .error "reserve: CAS without loading cur and conc first"
  | .ldStatusD g v =>
    if s.ph g != .reserved then .error "reserve: status re-check without a fresh reservation"
    else if v != s.ws then .error s!"reserve: loaded status={v}, model has {s.ws}"
    else if s.nRes == 0 then .error "ghost counter nRes is 0"
    else if isQuietStatus v then .ok { s with ph := upd s.ph g .mustRelease }
    else .ok { s with ph := upd s.ph g .checked, nRes := s.nRes - 1, nHold := s.nHold + 1 }
  | .ldConcR g v =>
    if s.ph g != .checked then .error "reserve: limit re-check without a passed status re-check"
    else if v != s.conc then .error s!"reserve: re-loaded conc={v}, model has {s.conc}"
    else if s.nHold == 0 then .error "ghost counter nHold is 0"
    else if s.tk g > v then .ok { s with ph := upd s.ph g .mustRelease, nHold := s.nHold - 1, nRes := s.nRes + 1 }
    else .ok { s with ph := upd s.ph g .holding }
  | .relD g res =>
    if s.cur == 0 then .error "release: cur is 0"
    else if res != s.cur - 1 then .error s!"release: result {res}, model has {s.cur - 1}"
    else match s.ph g with
      | .mustRelease =>
        if s.nRes == 0 then .error "ghost counter nRes is 0"
        else .ok { s with cur := s.cur - 1, ph := upd s.ph g .idle, nRes := s.nRes - 1 }
      | .holding =>
        if s.nHold == 0 then .error "ghost counter nHold is 0"
        else .ok { s with cur := s.cur - 1, ph := upd s.ph g .idle, nHold := s.nHold - 1 }
      | _ => .error "release by a dispatcher that holds no releasable slot"
  | .send g =>
    if s.ph g != .holding then .error "Node.Send by a dispatcher that has not passed reserve()"
    else if s.nHold == 0 then .error "ghost counter nHold is 0"
    else .ok { s with ph := upd s.ph g .idle, nHold := s.nHold - 1, handed := s.handed + 1 }
  | .enter g k =>
    if s.rph g != .idle then .error "worker function entered by a goroutine that is already in one"
    else if s.handed == 0 then .error "worker function entered without a job having been handed over"
    else .ok { s with rph := upd s.rph g (.executing k), handed := s.handed - 1, nExec := s.nExec + 1, starts := s.starts + 1, budget := s.budget.map (fun b => b - 1) }
  | .exit g k =>
    if s.rph g != .executing k then .error "worker function exit without matching entry"
    else if s.nExec == 0 then .error "ghost counter nExec is 0"
    else .ok { s with rph := upd s.rph g .done, nExec := s.nExec - 1, nDone := s.nDone + 1 }
  | .relR g res =>
    if s.rph g != .done then .error "runner release without a finished job"
    else if s.nDone == 0 then .error "ghost counter nDone is 0"
    else if s.cur == 0 then .error "release: cur is 0"
    else if res != s.cur - 1 then .error s!"release: result {res}, model has {s.cur - 1}"
    else .ok { s with cur := s.cur - 1, rph := upd s.rph g .idle, nDone := s.nDone - 1 }
  | .lockL g =>
    if s.lockL.isSome then .error "w.lifecycle locked twice"
    else
      -- a barrier result belongs to the critical section in which it was computed
      .ok { s with lockL := some g, bst := upd s.bst g none, checked := upd s.checked g false }
  | .unlockL g =>
    if s.lockL != some g then .error "w.lifecycle unlocked by a goroutine that does not hold it"
    else .ok { s with lockL := none }
  | .ldStatusL g v =>
    if v != s.ws then .error s!"lifecycle: loaded status={v}, model has {s.ws}"
    else .ok { s with ls := upd s.ls g (some v) }
  | .stStatus g v =>
    if s.lockL != some g then .error "status stored without holding w.lifecycle"
    else match s.inCall g with
      | some a =>
        if !mayStore a v then .error s!"status {v} stored inside {repr a}"
        else if (v == running || v == initiated) && s.openResumers == 0 then .error "ghost counter openResumers is 0"
        else if v == stopped && !(s.checked g) then .error "status stopped stored before the barrier condition was met"
        else .ok { s with ws := v }
      | none => .error "status stored outside any lifecycle call"
  | .stConc g v =>
    let _ := g
    .ok { s with conc := v, maxConc := max s.maxConc v }
  | .ldStatusB g v =>
    if v != s.ws then .error s!"barrier: loaded status={v}, model has {s.ws}"
    else .ok { s with bst := upd s.bst g (some v), checked := upd s.checked g false }
  | .ldCurB g v =>
    if v != s.cur then .error s!"barrier: loaded cur={v}, model has {s.cur}"
    else match s.bst g with
      | some b =>
        if isQuietStatus b && b == s.ws && v == 0 && s.lockL == some g then .ok { s with checked := upd s.checked g true, bst := upd s.bst g none }
        else .ok { s with bst := upd s.bst g none }
      | none => .error "barrier: cur loaded before status"
  | .ldStatusAny _ v => if v != s.ws then .error s!"loaded status={v}, model has {s.ws}" else .ok s
  | .ldCurAny _ v => if v != s.cur then .error s!"loaded cur={v}, model has {s.cur}" else .ok s
  | .ldConcAny _ v => if v != s.conc then .error s!"loaded conc={v}, model has {s.conc}" else .ok s
  | .call g a =>
    if (s.inCall g).isSome then .error "nested API call"
    else
      let s := { s with inCall := upd s.inCall g (some a), checked := upd s.checked g false, ls := upd s.ls g none,
                        dirty := upd s.dirty g (s.openResumers != 0) }
      if a.isResumer then .ok { s with openResumers := s.openResumers + 1, frozen := false, dirty := fun _ => true, budget := none }
      else .ok s
  | .ret g a ok =>
    if s.inCall g != some a then .error "return from a call that was not made"
    else if s.lockL == some g then .error "API call returns while holding w.lifecycle"
    else
      let s' := { s with inCall := upd s.inCall g none }
      if a.isResumer then
        if s.openResumers == 0 then .error "ghost counter openResumers is 0"
        else .ok { s' with openResumers := s.openResumers - 1 }
      else if a.isBarrier && ok then
        -- nil from PauseAndWait/Stop/WaitAndStop: the condition was evaluated (checked), or the
        -- worker was found stopped already
        if !(s.checked g || s.ls g == some stopped) then .error "barrier returned nil without its condition having been met"
        else .ok { s' with frozen := !(s.dirty g) }
      else if a == .pause && ok && !(s.dirty g) && s.budget.isNone && isQuietStatus s.ws then
        -- plain Pause returned: only jobs already past the status re-check of reserve() (limit re-check pending,
        -- holding a slot, or handed to a node) may still start
        .ok { s' with budget := some (s.nHold + s.handed) }
      else .ok s'

def run (s : State) : List Ev → Except String State
  | [] => .ok s
  | e :: es => match step s e with
    | .ok s' => run s' es
    | .error m => .error m

/-- `Reach s`: s is the end of some execution from an initial state -/
inductive Reach : State → Prop
  | init (c : Nat) : Reach (init c)
  | step {s s' : State} (e : Ev) : Reach s → step s e = .ok s' → Reach s'

end Res
end VarmqVerif
