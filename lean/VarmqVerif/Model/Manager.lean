/-
  Model of /repo/internal/helpers/manager.go (`Manager[T Sizer]`) and of
  `queueManager.next` in /repo/queue.go.

  Abstraction: the registered items `m.items` are represented by the list of the values their
  `Len()` method returns at the time of the call, `lens : List Int` (Go `int`; kept as `Int` so
  that non-positive values are covered too), and the cursor `m.roundRobinIndex` by `rr : Nat`.
  Every selection function returns the *index* of the selected item instead of the item.

  Not modelled: the mutex (`m.mx`), the fact that `Len()` of a live queue may change between two
  reads inside one call (each call works on one snapshot `lens`), Go `int` overflow in
  `a.Len() - b.Len()` and in `totalLen += item.Len()` (needs lengths of the order of 2^63; we
  compute on `Int`), and `UnregisterItem`.

  Core-only imports; everything is executable.
-/

namespace VarmqVerif
namespace Manager

/-- `ErrNoItemsRegistered`, `ErrAllItemsEmpty` (manager.go:10-13). -/
inductive Err where
  | noItems
  | allEmpty
  deriving DecidableEq, Repr

/-- Core has no `DecidableEq (Except ε α)`; needed for `decide`/`==` on results. Kept as a plain
`def` and instantiated only at this model's own error types, so that no global instance for
`Except` is introduced. -/
def decEqExcept {ε α : Type} [DecidableEq ε] [DecidableEq α] : DecidableEq (Except ε α)
  | .ok a, .ok b => if h : a = b then isTrue (h ▸ rfl) else isFalse (fun h' => h (Except.ok.inj h'))
  | .error a, .error b =>
    if h : a = b then isTrue (h ▸ rfl) else isFalse (fun h' => h (Except.error.inj h'))
  | .ok _, .error _ => isFalse (fun h => nomatch h)
  | .error _, .ok _ => isFalse (fun h => nomatch h)

instance : DecidableEq (Except Err Nat) := decEqExcept

/-! ### Register / Count / Len -/

/-- `func (m *Manager[T]) Register(item T) { … m.items = append(m.items, item) }` -/
def register (lens : List Int) (l : Int) : List Int := lens ++ [l]

/-- `func (m *Manager[T]) Count() int { … return len(m.items) }` -/
def count (lens : List Int) : Nat := lens.length

/-- `func (m *Manager[T]) Len() int { totalLen := 0; for _, item := range m.items { totalLen += item.Len() }; return totalLen }` -/
def total (lens : List Int) : Int := lens.foldl (fun totalLen l => totalLen + l) 0

/-! ### GetRoundRobinItem -/

/--
The `for { … }` loop of `GetRoundRobinItem`, with fuel:
```go
for {
    item := m.items[m.roundRobinIndex]
    m.roundRobinIndex = (m.roundRobinIndex + 1) % len(m.items)
    if item.Len() > 0 { return item, nil }
    if m.roundRobinIndex == start { return *new(T), ErrAllItemsEmpty }
}
```
Result: (selected index or error, new value of `m.roundRobinIndex`).

Totalisation (both branches are proved unreachable from `rr < lens.length`, theorem
`roundRobin_spec` / `rrLoop_spec`):
* `rr ≥ len(m.items)`: Go panics with "index out of range" at `m.items[m.roundRobinIndex]`.
  The model returns `(.error .allEmpty, rr)`.
* fuel exhausted: cannot happen with fuel `= len(m.items)`; returns `(.error .allEmpty, rr)`.
-/
def rrLoop (lens : List Int) (start : Nat) : Nat → Nat → Except Err Nat × Nat
  | 0, rr => (.error .allEmpty, rr)
  | fuel + 1, rr =>
    if h : rr < lens.length then
      let itemLen := lens[rr]                    -- item := m.items[m.roundRobinIndex]
      let rr' := (rr + 1) % lens.length          -- m.roundRobinIndex = (… + 1) % len(m.items)
      if itemLen > 0 then (.ok rr, rr')          -- if item.Len() > 0 { return item, nil }
      else if rr' = start then (.error .allEmpty, rr')  -- if … == start { return ErrAllItemsEmpty }
      else rrLoop lens start fuel rr'
    else (.error .allEmpty, rr)                  -- Go: panic (index out of range)

/--
```go
if len(m.items) == 0 { return *new(T), ErrNoItemsRegistered }
start := m.roundRobinIndex
for { … }
```
-/
def roundRobin (lens : List Int) (rr : Nat) : Except Err Nat × Nat :=
  if lens.length = 0 then (.error .noItems, rr)
  else rrLoop lens rr lens.length rr

/-! ### GetMaxLenItem -/

/--
The loop of `slices.MaxFunc` (GOROOT/src/slices/sort.go, go1.26.8):
```go
m := x[0]
for i := 1; i < len(x); i++ { if cmp(x[i], m) > 0 { m = x[i] } }
return m
```
with `cmp = func(a, b T) int { return a.Len() - b.Len() }`.
Arguments: the remaining slice `x[i:]`, the index `i`, the index and length of the current `m`.
-/
def maxFrom : List Int → Nat → Nat → Int → Nat × Int
  | [], _, mi, mv => (mi, mv)
  | x :: xs, i, mi, mv =>
    if x - mv > 0 then maxFrom xs (i + 1) i x else maxFrom xs (i + 1) mi mv

/--
```go
if len(m.items) == 0 { return *new(T), ErrNoItemsRegistered }
maxItem := slices.MaxFunc(m.items, func(a, b T) int { return a.Len() - b.Len() })
if maxItem.Len() == 0 { return *new(T), ErrAllItemsEmpty }
return maxItem, nil
```
Note the test is `== 0`, not `<= 0`: a (hypothetical) negative maximum is returned as `.ok`.
-/
def maxLen (lens : List Int) : Except Err Nat :=
  match lens with
  | [] => .error .noItems
  | x :: xs =>
    let (mi, mv) := maxFrom xs 1 0 x
    if mv = 0 then .error .allEmpty else .ok mi

/-! ### GetMinLenItem -/

/--
```go
var minItem T
minLen := -1
for _, item := range m.items {
    l := item.Len()
    if l > 0 && (minLen == -1 || l < minLen) { minLen = l; minItem = item }
}
```
Arguments: remaining items, index of the next item, index of `minItem`, `minLen`.
-/
def minFrom : List Int → Nat → Nat → Int → Nat × Int
  | [], _, mi, ml => (mi, ml)
  | l :: xs, i, mi, ml =>
    if l > 0 ∧ (ml = -1 ∨ l < ml) then minFrom xs (i + 1) i l else minFrom xs (i + 1) mi ml

/--
```go
if len(m.items) == 0 { return *new(T), ErrNoItemsRegistered }
… loop …
if minLen == -1 { return *new(T), ErrAllItemsEmpty }
return minItem, nil
```
(`minItem` starts as the zero value of `T`; its index is irrelevant while `minLen == -1`, we
use 0.)
-/
def minLen (lens : List Int) : Except Err Nat :=
  if lens.length = 0 then .error .noItems
  else
    let (mi, ml) := minFrom lens 0 0 (-1)
    if ml = -1 then .error .allEmpty else .ok mi

/-! ### queueManager.next (queue.go:274) -/

/-- `type Strategy uint8; const ( RoundRobin Strategy = iota; MaxLen; MinLen )` (queue.go:10-21). -/
def strategyRoundRobin : Nat := 0
def strategyMaxLen : Nat := 1
def strategyMinLen : Nat := 2

/-- Errors of `queueManager.next`: a manager error or `errInvalidStrategyType`. -/
inductive NextErr where
  | mgr (e : Err)
  | invalidStrategy
  deriving DecidableEq, Repr

instance : DecidableEq (Except NextErr Nat) := decEqExcept

/-- Embedding of the manager's errors into the errors of `next`. -/
def liftErr : Except Err Nat → Except NextErr Nat
  | .ok i => .ok i
  | .error e => .error (.mgr e)

/--
```go
switch qm.strategy {
case RoundRobin: return qm.GetRoundRobinItem()
case MaxLen:     return qm.GetMaxLenItem()
case MinLen:     return qm.GetMinLenItem()
default:         return nil, errInvalidStrategyType
}
```
Result: (selected index or error, new cursor). Only the round-robin strategy moves the cursor.
-/
def next (strategy : Nat) (lens : List Int) (rr : Nat) : Except NextErr Nat × Nat :=
  if strategy = strategyRoundRobin then
    let (r, rr') := roundRobin lens rr
    (liftErr r, rr')
  else if strategy = strategyMaxLen then (liftErr (maxLen lens), rr)
  else if strategy = strategyMinLen then (liftErr (minLen lens), rr)
  else (.error .invalidStrategy, rr)

/-! ### UnregisterItem -/

/--
```go
for i, item := range m.items {
    if itemToRemovePtr == itemValuePtr {
        lastIndex := len(m.items) - 1
        m.items[i] = m.items[lastIndex]
        m.items = m.items[:lastIndex]
        if m.roundRobinIndex >= i { m.roundRobinIndex = 0 }
        return
    }
}
```
Items are distinct objects compared by pointer, so "the first slot holding the item" is a slot
index `i`; an item that is not registered (`i ≥ len`) leaves list and cursor unchanged. -/
def unregister (lens : List Int) (rr : Nat) (i : Nat) : List Int × Nat :=
  if i < lens.length then
    ((lens.set i (lens.getD (lens.length - 1) 0)).dropLast, if rr ≥ i then 0 else rr)
  else (lens, rr)

/-! ### A small machine for fairness statements

Queues are abstracted to their lengths (`Nat`), the worker's dispatcher to the event `select`
(one call of `GetRoundRobinItem` followed by a dequeue from the returned queue), producers to
`enq i`. `served[i]` counts how often queue `i` has been selected. -/

structure St where
  lens : List Nat
  rr : Nat
  served : List Nat
  deriving DecidableEq, Repr

inductive Ev where
  | enq (i : Nat)
  | select
  deriving DecidableEq, Repr

/-- Current length of queue `i` (0 when `i` is not a registered queue). -/
def St.lenOf (s : St) (i : Nat) : Nat := s.lens.getD i 0

/-- Number of times queue `i` has been selected so far. -/
def St.servedOf (s : St) (i : Nat) : Nat := s.served.getD i 0

/-- `enq i`: `lens[i] += 1` (no-op for an unregistered `i`).
`select`: call `roundRobin`; on `.ok i` dequeue one job from queue `i` and count it; on an
error nothing changes except the cursor, exactly as the Go code leaves it. -/
def step (s : St) : Ev → St
  | .enq i => { s with lens := s.lens.set i (s.lenOf i + 1) }
  | .select =>
    match roundRobin (s.lens.map Int.ofNat) s.rr with
    | (.ok i, rr') =>
      { lens := s.lens.set i (s.lenOf i - 1), rr := rr', served := s.served.set i (s.servedOf i + 1) }
    | (.error _, rr') => { s with rr := rr' }

def run (s : St) (evs : List Ev) : St := evs.foldl step s

/-- Number of `select` events in a sequence. -/
def numSelects (evs : List Ev) : Nat := evs.countP (· = .select)

/-- Initial state with `n` empty queues. -/
def St.init (n : Nat) : St := { lens := List.replicate n 0, rr := 0, served := List.replicate n 0 }

end Manager
end VarmqVerif
