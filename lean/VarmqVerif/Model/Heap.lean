/-!
# Model of `internal/queues/heap.go` and of the `container/heap` functions it is driven by

Transcription (not idealisation) of

* `/repo/internal/queues/heap.go`      : `heapQueue[T]` (`Len`, `Less`, `Swap`, `Push`, `Pop`)
* `$GOROOT/src/container/heap/heap.go` : `Init`, `Push`, `Pop`, `up`, `down` (go1.26.8)

The heap lives in an `Array (Item α)`; `heapQueue.items` is a Go slice of `*enqItem[T]`.  The
pointer indirection is irrelevant: an `enqItem` is never mutated after `Enqueue` built it.

Core Lean only.  All definitions are total and executable.  `up` and `down` are the Go loops written
as recursive functions; their termination is *proved* (well-founded recursion, `termination_by` /
`decreasing_by` below), not assumed and not cut off by fuel.
-/

namespace VarmqVerif
namespace Heap

/-- `type enqItem[T any] struct { Value T; Priority int; Index int }` (priority.go).
`Priority` is a Go `int`; it is only ever *compared* (`==`, `<`), never used in arithmetic, so `Int`
is an exact model.  `Index` is a copy of `PriorityQueue.insertionCount`, a counter starting at 0 and
only incremented: `Nat` (wrap-around of the Go `int` after 2^63 accepted enqueues is out of scope
and stated as such in `Proofs/PQ.lean`). -/
structure Item (α : Type) where
  val  : α
  prio : Int
  idx  : Nat
deriving DecidableEq, Repr

variable {α : Type}

/-- `heapQueue.Less(i, j)` applied to the two items:
```go
if pq.items[i].Priority == pq.items[j].Priority {
    return pq.items[i].Index < pq.items[j].Index   // tie-breaker: lower insertion index first
}
return pq.items[i].Priority < pq.items[j].Priority
``` -/
def less (a b : Item α) : Bool :=
  if a.prio = b.prio then a.idx < b.idx else a.prio < b.prio

/-- Go: `i := (j - 1) / 2 // parent`.  For `j = 0` Go computes `(-1)/2 = 0` (truncated division) and
`Nat` computes `(0 - 1)/2 = 0/2 = 0`: the same value, which is what makes the `i == j` test of `up`
fire at the root. -/
abbrev parent (j : Nat) : Nat := (j - 1) / 2

/-- `container/heap.up`:
```go
func up(h Interface, j int) {
    for {
        i := (j - 1) / 2 // parent
        if i == j || !h.Less(j, i) { break }
        h.Swap(i, j)
        j = i
    }
}
```
Totalisation guard `j < a.size`: for `j ≥ Len()` with `j ≠ 0` Go panics (index out of range inside
`Less`); for `j = 0` on an empty heap Go breaks on `i == j` before touching the slice, and the model
returns `a` unchanged as well.  `heap.Push` only calls `up(h, Len()-1)` after the append, so the guard
is always true on the paths reachable from priority.go. -/
def up (a : Array (Item α)) (j : Nat) : Array (Item α) :=
  if hj : j < a.size then
    have hi : parent j < a.size := by unfold parent; omega
    if h : parent j = j ∨ less a[j] a[parent j] = false then a
    else up (a.swap (parent j) j hi hj) (parent j)
  else a
termination_by j
decreasing_by
  have h1 : parent j ≠ j := fun e => h (Or.inl e)
  unfold parent at *; omega

/-- The child index `j` chosen by one iteration of `down`:
```go
j := j1 // left child
if j2 := j1 + 1; j2 < n && h.Less(j2, j1) {
    j = j2 // = 2*i + 2  // right child
}
``` -/
def minChild (a : Array (Item α)) (j1 n : Nat) (_h1 : j1 < n) (hn : n ≤ a.size) : Nat :=
  if h2 : j1 + 1 < n then
    if less (a[j1 + 1]'(by omega)) (a[j1]'(by omega)) then j1 + 1 else j1
  else j1

theorem minChild_lt (a : Array (Item α)) (j1 n : Nat) (h1 : j1 < n) (hn : n ≤ a.size) :
    minChild a j1 n h1 hn < n := by
  unfold minChild
  split
  · split <;> omega
  · omega

theorem le_minChild (a : Array (Item α)) (j1 n : Nat) (h1 : j1 < n) (hn : n ≤ a.size) :
    j1 ≤ minChild a j1 n h1 hn := by
  unfold minChild
  split
  · split <;> omega
  · omega

/-- `container/heap.down`:
```go
func down(h Interface, i0, n int) bool {
    i := i0
    for {
        j1 := 2*i + 1
        if j1 >= n || j1 < 0 { break } // j1 < 0 after int overflow
        j := j1 // left child
        if j2 := j1 + 1; j2 < n && h.Less(j2, j1) { j = j2 }
        if !h.Less(j, i) { break }
        h.Swap(i, j)
        i = j
    }
    return i > i0
}
```
* `j1 < 0` (overflow of `2*i+1` in a 64-bit `int`) cannot happen over `Nat` and would need a slice of
  more than 2^62 pointers in Go; the disjunct is dropped.
* The boolean result `i > i0` is used only by `heap.Remove` / `heap.Fix`, which priority.go never
  calls; `heap.Init` and `heap.Pop` discard it.  The model returns the array only.
* Totalisation guard `n ≤ a.size`: Go would panic (index out of range) for a larger `n`; `Init` calls
  it with `n = Len()` and `Pop` with `n = Len() - 1`. -/
def down (a : Array (Item α)) (i n : Nat) : Array (Item α) :=
  if h : 2 * i + 1 < n ∧ n ≤ a.size then
    let j := minChild a (2 * i + 1) n h.1 h.2
    have hjn : j < n := minChild_lt a (2 * i + 1) n h.1 h.2
    have hij : 2 * i + 1 ≤ j := le_minChild a (2 * i + 1) n h.1 h.2
    if less (a[j]'(by omega)) (a[i]'(by omega)) = false then a
    else down (a.swap i j (by omega) (by omega)) j n
  else a
termination_by n - i
decreasing_by omega

theorem size_up (a : Array (Item α)) (j : Nat) : (up a j).size = a.size := by
  fun_induction up a j <;> simp_all

theorem size_down (a : Array (Item α)) (i n : Nat) : (down a i n).size = a.size := by
  fun_induction down a i n <;> simp_all

/-- The loop of `container/heap.Init`, counting `k = i + 1` down to 0:
`for i := n/2 - 1; i >= 0; i-- { down(h, i, n) }`. -/
def initLoop (n : Nat) : Nat → Array (Item α) → Array (Item α)
  | 0,     a => a
  | k + 1, a => initLoop n k (down a k n)

/-- `container/heap.Init`: `n := h.Len(); for i := n/2 - 1; i >= 0; i-- { down(h, i, n) }`.
priority.go calls it only on a freshly made empty slice (`NewPriorityQueue`, `Purge`), where the loop
body never runs. -/
def heapInit (a : Array (Item α)) : Array (Item α) :=
  initLoop a.size (a.size / 2) a

/-- `container/heap.Push` composed with `heapQueue.Push`:
```go
func Push(h Interface, x any) { h.Push(x); up(h, h.Len()-1) }
func (pq *heapQueue[T]) Push(x any) { pq.items = append(pq.items, x.(*enqItem[T])) }
```
After the append `Len()-1` is the old length `a.size`. -/
def heapPush (a : Array (Item α)) (x : Item α) : Array (Item α) :=
  up (a.push x) a.size

/-- `container/heap.Pop` composed with `heapQueue.Pop`:
```go
func Pop(h Interface) any { n := h.Len() - 1; h.Swap(0, n); down(h, 0, n); return h.Pop() }
func (pq *heapQueue[T]) Pop() any {
    n := len(pq.items); item := pq.items[n-1]; pq.items = pq.items[:n-1]; return item }
```
Returns (popped item, remaining array).  Precondition `0 < a.size`: on an empty heap Go panics in
`Swap(0, -1)`; `PriorityQueue.Dequeue` checks `Len() == 0` first and is the only caller. -/
def heapPop (a : Array (Item α)) (h : 0 < a.size) : Item α × Array (Item α) :=
  let n := a.size - 1
  let a1 := a.swap 0 n h (by omega)
  let a2 := down a1 0 n
  (a2[n]'(by simp only [a2, a1, size_down, Array.size_swap]; omega), a2.pop)

end Heap
end VarmqVerif
