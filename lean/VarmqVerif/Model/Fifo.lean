/-
  Executable model of the segmented FIFO queue
    /repo/internal/queues/queue.go          (type Queue[T])
    /repo/internal/linkedbuffer/chunk.go    (type Chunk[T])

  The model is a line-by-line transcription of the *sequential* behaviour of the Go methods
  (each method body runs under `q.mx`, except `Len`/`Close`/the `closed` test which are single
  atomic loads/stores, so one method call = one atomic `step`; the lock-free two-load `Len` racing
  with writers is a concurrency matter and is out of scope of this file).

  What is abstracted, and why that is sound for the sequential semantics:
  * `Chunk.Data` is a Go slice of length = capacity `cap` filled with zero values.  Only the
    prefix `[0, NextWriteIndex)` has ever been written, so the model keeps exactly that prefix as
    `data : List α`; hence `NextWriteIndex = data.length`.  `make([]T, n)` has `cap = len = n`
    (Go spec), so `Chunk.Cap() = cap`.
  * `Pop` overwrites `Data[NextReadIndex]` with the zero value before advancing.  Slots below
    `NextReadIndex` are never read again by any method (`Pop`, `Values` start at `NextReadIndex`),
    so the model leaves the popped item in `data`.
  * The Go queue holds two pointers (`readChunk`, `writeChunk`) into a singly linked list.
    `writeChunk` is always the last chunk reachable from `readChunk` via `Next`:
    `NewQueue`/`Purge` set both to one fresh chunk; `Enqueue` links the new chunk behind
    `writeChunk` and moves `writeChunk` onto it; `Dequeue` moves `readChunk` to `readChunk.Next`
    only if that is non-nil.  So the model stores the list `head :: rest` of chunks reachable from
    `readChunk` (`head` = `readChunk`, last element = `writeChunk`).  Chunks in front of `readChunk`
    are unreachable garbage in Go and are dropped.
  * `Enqueue(item any)` performs the type assertion `item.(T)` and returns `false` if it fails.  The
    model is typed (`x : α`), i.e. it covers the calls whose assertion succeeds.
  * `initialBufferCapacity`, `chunkMaxCapacity` are package-level `var`s in Go (1024, 100*1024).
    They are parameters `initCap`, `maxCap` of the model state; `Purge` re-reads the package
    variable, `Enqueue` reads the per-queue copy `q.maxCapacity`.
  * `make([]T, capacity)` panics for a negative capacity; capacities are `Nat` here, so that input
    is excluded by typing.  No other operation of this code can panic (all index expressions are
    guarded by `IsFull` / `IsEmpty`), see `Chunk.pop` for the explicit bound proof.
  * The counters are `atomic.Uint64`; their wrap-around at 2^64 is NOT modelled (see `lenOf`).
-/

namespace VarmqVerif
namespace Fifo

universe u

/-- `linkedbuffer.Chunk[T]`.
    `cap` = `Chunk.Cap()` = `cap(c.Data)`; `data` = `c.Data[0:c.NextWriteIndex]` (everything pushed so
    far, so `data.length` = `c.NextWriteIndex`); `r` = `c.NextReadIndex`.  The `Next` pointer is
    represented by the position in `State.rest`. -/
structure Chunk (α : Type u) where
  cap : Nat
  data : List α
  r : Nat
deriving Repr, DecidableEq

namespace Chunk
variable {α : Type u}

/-- `func NewChunk[T any](capacity int) *Chunk[T] { return &Chunk[T]{ Data: make([]T, capacity) } }` -/
def new (capacity : Nat) : Chunk α := { cap := capacity, data := [], r := 0 }

/-- `c.NextWriteIndex` -/
def w (c : Chunk α) : Nat := c.data.length

/-- `func (c *Chunk[T]) IsFull() bool { return c.NextWriteIndex >= c.Cap() }` -/
def isFull (c : Chunk α) : Bool := decide (c.w ≥ c.cap)

/-- `func (c *Chunk[T]) IsEmpty() bool { return c.NextReadIndex >= c.NextWriteIndex }` -/
def isEmpty (c : Chunk α) : Bool := decide (c.r ≥ c.w)

/-- ```go
    func (c *Chunk[T]) Push(item T) bool {
        if c.IsFull() { return false }
        c.Data[c.NextWriteIndex] = item
        c.NextWriteIndex++
        return true
    }
    ```
    The index `NextWriteIndex < Cap() = len(Data)` is in range by the `IsFull` guard. -/
def push (c : Chunk α) (x : α) : Chunk α × Bool :=
  if c.isFull then (c, false)
  else ({ c with data := c.data ++ [x] }, true)

/-- ```go
    func (c *Chunk[T]) Pop() (T, bool) {
        if c.IsEmpty() { return *new(T), false }
        item := c.Data[c.NextReadIndex]
        c.Data[c.NextReadIndex] = *new(T)
        c.NextReadIndex++
        return item, true
    }
    ```
    `none` stands for `(zero value, false)`.  The index `NextReadIndex < NextWriteIndex` is in range
    of the written prefix by the `IsEmpty` guard (explicit proof term below): no panic possible. -/
def pop (c : Chunk α) : Chunk α × Option α :=
  if h : c.r ≥ c.w then (c, none)
  else ({ c with r := c.r + 1 }, some (c.data[c.r]'(by unfold w at h; omega)))

/-- The items a `Values()` loop visits in this chunk:
    `for i := chunk.NextReadIndex; i < chunk.NextWriteIndex; i++ { ... chunk.Data[i] }` -/
def unread (c : Chunk α) : List α := c.data.drop c.r

end Chunk

/-- `queues.Queue[T]` (sequential part).  `head` = `*q.readChunk`; `rest` = the chunks reachable from
    `q.readChunk.Next`; the last element of `head :: rest` is `*q.writeChunk`.
    `initCap` = package var `initialBufferCapacity`, `maxCap` = `q.maxCapacity`. -/
structure State (α : Type u) where
  head : Chunk α
  rest : List (Chunk α)
  writeCount : Nat
  readCount : Nat
  closed : Bool
  initCap : Nat
  maxCap : Nat
deriving Repr, DecidableEq

variable {α : Type u}

/-- All chunks reachable from `readChunk`, in `Next` order. -/
def State.chunks (s : State α) : List (Chunk α) := s.head :: s.rest

/-- ```go
    func NewQueue[T any]() *Queue[T] {
        chunk := linkedbuffer.NewChunk[T](initialBufferCapacity)
        return &Queue[T]{ readChunk: chunk, writeChunk: chunk, maxCapacity: chunkMaxCapacity }
    }
    ```  -/
def init (initCap maxCap : Nat) : State α :=
  { head := Chunk.new initCap, rest := [], writeCount := 0, readCount := 0, closed := false,
    initCap := initCap, maxCap := maxCap }

inductive Op (α : Type u) where
  | enq (x : α)
  | deq
  | len
  | values
  | purge
  | close
deriving Repr, DecidableEq

inductive Out (α : Type u) where
  | bool (b : Bool)
  | item (x : Option α)
  | nat (n : Nat)
  | list (xs : List α)
  | unit
deriving Repr, DecidableEq

/-- The locked part of `Enqueue`, acting on the chunk list `c :: rest` whose last element is
    `q.writeChunk`.  Returns the new chunk list and the Go return value.
    ```go
    if q.writeChunk.Push(typedItem) { q.writeCount.Add(1); return true }
    currentCap := q.writeChunk.Cap()
    newCapacity := min(currentCap+currentCap/2, q.maxCapacity)
    newChunk := linkedbuffer.NewChunk[T](newCapacity)
    q.writeChunk.Next = newChunk
    q.writeChunk = newChunk
    if q.writeChunk.Push(typedItem) { q.writeCount.Add(1); return true }
    return false // Should never happen
    ```
    (the counter update is done by the caller `enqueue`).  Note that when the second `Push` fails
    the fresh chunk *stays linked*, exactly as in Go.  `currentCap+currentCap/2` cannot overflow
    `int` for any allocatable capacity; not modelled. -/
def enqChunks (maxCap : Nat) (x : α) : Chunk α → List (Chunk α) → (Chunk α × List (Chunk α)) × Bool
  | c, [] =>
    match c.push x with
    | (c', true) => ((c', []), true)
    | (_, false) =>
      let newCapacity := min (c.cap + c.cap / 2) maxCap
      match (Chunk.new newCapacity : Chunk α).push x with
      | (n', true) => ((c, [n']), true)
      | (n', false) => ((c, [n']), false)
  | c, d :: ds =>
    let res := enqChunks maxCap x d ds
    ((c, res.1.1 :: res.1.2), res.2)

/-- `func (q *Queue[T]) Enqueue(item any) bool`:
    `if q.closed.Load() { return false }` then the locked part `enqChunks`;
    `q.writeCount.Add(1)` exactly on the two `return true` paths. -/
def enqueue (s : State α) (x : α) : State α × Bool :=
  if s.closed then (s, false)
  else
    let res := enqChunks s.maxCap x s.head s.rest
    ({ s with head := res.1.1, rest := res.1.2,
              writeCount := if res.2 then s.writeCount + 1 else s.writeCount }, res.2)

/-- ```go
    func (q *Queue[T]) Dequeue() (any, bool) {
        if item, ok := q.readChunk.Pop(); ok { q.readCount.Add(1); return item, true }
        if q.readChunk.Next != nil {
            q.readChunk = q.readChunk.Next
            if item, ok := q.readChunk.Pop(); ok { q.readCount.Add(1); return item, true }
        }
        return *new(T), false
    }
    ```
    When the next chunk exists but is empty the advance has still happened (third branch). -/
def dequeue (s : State α) : State α × Option α :=
  match s.head.pop with
  | (h', some x) => ({ s with head := h', readCount := s.readCount + 1 }, some x)
  | (_, none) =>
    match s.rest with
    | [] => (s, none)
    | d :: ds =>
      match d.pop with
      | (d', some x) => ({ s with head := d', rest := ds, readCount := s.readCount + 1 }, some x)
      | (_, none) => ({ s with head := d, rest := ds }, none)

/-- ```go
    func (q *Queue[T]) Len() int {
        writeCount := q.writeCount.Load(); readCount := q.readCount.Load()
        if writeCount < readCount { return int(math.MaxUint64 - readCount + writeCount) }
        return int(writeCount - readCount)
    }
    ```
    NOT MODELLED: the counters are `uint64` and wrap after 2^64 enqueues; the model counters are
    unbounded `Nat`s (true counts), for which `writeCount < readCount` is unreachable (`Inv` in
    Proofs/Fifo.lean), so the wrap branch is dead and truncated subtraction is exact.
    (Reading note: if the write counter ever did wrap, the Go branch would be off by one: the
    true length is `2^64 - readCount + writeCount`, Go returns `2^64 - 1 - readCount + writeCount`;
    plain `uint64` subtraction would have been right.  Also `int(...)` of a value ≥ 2^63 is
    negative.  Both need > 2^63 live or 2^64 total items, i.e. are physically unreachable.) -/
def lenOf (s : State α) : Nat := s.writeCount - s.readCount

/-- ```go
    func (q *Queue[T]) Values() []any {
        values := make([]any, 0)
        if q.Len() == 0 { return values }
        for chunk := q.readChunk; chunk != nil; chunk = chunk.Next {
            for i := chunk.NextReadIndex; i < chunk.NextWriteIndex; i++ { values = append(values, chunk.Data[i]) }
        }
        return values
    }
    ``` -/
def valuesOf (s : State α) : List α :=
  if lenOf s = 0 then [] else s.chunks.flatMap Chunk.unread

/-- ```go
    func (q *Queue[T]) Purge() {
        chunk := linkedbuffer.NewChunk[T](initialBufferCapacity)
        q.readChunk = chunk; q.writeChunk = chunk
        q.readCount.Store(0); q.writeCount.Store(0)
    }
    ```
    `closed` and `maxCapacity` are untouched. -/
def purge (s : State α) : State α :=
  { s with head := Chunk.new s.initCap, rest := [], readCount := 0, writeCount := 0 }

/-- `func (q *Queue[T]) Close() error { q.closed.Store(true); return nil }` — despite its doc comment
    ("releases resources and clears the queue") it clears nothing. -/
def close (s : State α) : State α := { s with closed := true }

/-- One method call. -/
def step (s : State α) : Op α → State α × Out α
  | .enq x => let r := enqueue s x; (r.1, .bool r.2)
  | .deq => let r := dequeue s; (r.1, .item r.2)
  | .len => (s, .nat (lenOf s))
  | .values => (s, .list (valuesOf s))
  | .purge => (purge s, .unit)
  | .close => (close s, .unit)

/-- A sequence of method calls; outputs in call order. -/
def run (s : State α) : List (Op α) → State α × List (Out α)
  | [] => (s, [])
  | op :: ops =>
    let r := step s op
    let rs := run r.1 ops
    (rs.1, r.2 :: rs.2)

/-- White-box view for the differential test against Go: for every chunk reachable from
    `q.readChunk` via `Next`, the triple `(Chunk.Cap(), NextReadIndex, NextWriteIndex)`. -/
def shape (s : State α) : List (Nat × Nat × Nat) :=
  s.chunks.map fun c => (c.cap, c.r, c.data.length)

end Fifo
end VarmqVerif
