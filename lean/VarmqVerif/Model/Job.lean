/-
  Model `Job`: the per-job protocol of job.go / group_job.go / internal/helpers/{wg_counter,response}.go
  on the repaired tree:

    Add                j := newJob (wg.Add 1) ; status.Store(queued) ; Enqueue …
    claim()            for { s := status.Load(); if s == closed { return false }; if status.CAS(s, processing) { return true } }
    runner             workerFunc(j) [Response.Send inside the wrapper] ; status.Store(finished) ; j.Close()
    tryClose()         for { s := status.Load(); processing → ErrJobProcessing; closed → ErrJobAlreadyClosed; if status.CAS(s, closed) { return nil } }
    job.Close          tryClose ; (defer wg.Done) ; ack        errorJob/resultJob.Close: job.Close ; close(resp.ch)
    group Close        tryClose ; ack ; if wgc.Done() { close(resp.ch) }
    WgCounter.Done     for { c := count.Load(); if c == 0 { return false }; if count.CAS(c, c-1) { wg.Done(); return c == 1 } }
    Wait               wg.Wait()

  One event per atomic operation. Jobs, batches and response channels are indexed by naturals
  (the driver maps the implementation's object names to indices in order of first appearance).
  Environment assumption, checked on every replayed trace and justified by the queue refinement
  theorems (each enqueued item is dequeued at most once): only one goroutine ever runs claim() on a
  given job (`claimer`).

  A panic the real code would raise (negative WaitGroup counter, close of closed channel, send on
  closed channel) is the transition to `crashed := true`; the theorems show it is unreachable.
-/
namespace VarmqVerif
namespace Job

abbrev created : Nat := 0
abbrev queued : Nat := 1
abbrev processing : Nat := 2
abbrev finished : Nat := 3
abbrev closed : Nat := 4

structure JobSt where
  exist : Bool := false
  st : Nat := 0
  wg : Nat := 0                     -- own wait group (single jobs only)
  batch : Option Nat := none
  chan : Option Nat := none
  claimer : Option Nat := none      -- goroutine that runs claim() on it
  claims : Nat := 0                 -- successful claim CAS
  entered : Nat := 0
  exited : Nat := 0
  closes : Nat := 0                 -- successful tryClose CAS
  cancelled : Bool := false         -- closed from created/queued, i.e. before it started
  dones : Nat := 0                  -- wg.Done / WgCounter.Done performed on its behalf
  acks : Nat := 0                   -- Acknowledge calls made for it (adapter-backed queues)
  hist : List Nat := [0]            -- ghost: every value the status word has held, newest first
  parsedFinished : Bool := false    -- ghost: created by parseToJob from an envelope that says "Finished"
  deriving Repr, Inhabited

structure BatchSt where
  exist : Bool := false
  size : Nat := 0
  count : Nat := 0
  wg : Nat := 0
  chan : Option Nat := none
  items : List Nat := []            -- ghost: member jobs created so far
  doneItems : List Nat := []        -- ghost: members whose WgCounter.Done succeeded
  deriving Repr, Inhabited

structure ChanSt where
  exist : Bool := false
  closed : Bool := false
  sends : Nat := 0
  deriving Repr, Inhabited

/-- what a goroutine is in the middle of -/
structure Local where
  ld : Option (Nat × Nat) := none       -- (job, status value loaded by claim()/tryClose())
  owesDone : Option Nat := none         -- job whose tryClose CAS this goroutine won; Done not yet performed
  cnt : Option (Nat × Nat) := none      -- (batch, count value loaded by WgCounter.Done)
  owesWg : Option Nat := none           -- batch whose count CAS this goroutine won; wg.Done not yet performed
  owesClose : Option Nat := none        -- channel this goroutine has to close
  running : Option Nat := none          -- job whose worker function wrapper is active in this goroutine
  deriving Repr, Inhabited

inductive Ev where
  | newJob (g j : Nat) (ch : Option Nat)           -- newJob/newErrorJob/newResultJob: wg.Add(1)
  | newBatch (g b n : Nat) (ch : Option Nat)       -- NewWgCounter(n) (+ NewResponse(n)); an empty result/error batch closes its stream at once
  | newItem (g j b : Nat)                          -- groupJob.newJob
  | stQueued (g j : Nat)
  | stParsed (g j v : Nat)                         -- parseToJob: status from the stored envelope
  | ldClaim (g j v : Nat)
  | casClaim (g j old : Nat) (ok : Bool)
  | enter (g j : Nat)
  | exit (g j : Nat)
  | stFinished (g j : Nat)
  | ldClose (g j v : Nat)
  | casClose (g j old : Nat) (ok : Bool)
  | ack (g j : Nat)                                -- job.Close → ack(): queue.Acknowledge(ackId), between tryClose and wg.Done
  | wgDone (g j : Nat)                             -- job.Close: wg.Done()
  | ldCount (g b v : Nat)
  | casCount (g b old : Nat) (ok : Bool)
  | wgDoneB (g b : Nat)
  | closeChan (g c : Nat)
  | sendChan (g c : Nat)
  | wgWait (g j : Nat)
  | wgWaitB (g b : Nat)
  | ldStatus (g j v : Nat)                         -- Status(), IsClosed(), Json()
  | ldCountAny (g b v : Nat)                       -- NumPending()
  deriving DecidableEq, Repr, Inhabited

structure State where
  jobs : Nat → JobSt := fun _ => {}
  batches : Nat → BatchSt := fun _ => {}
  chans : Nat → ChanSt := fun _ => {}
  loc : Nat → Local := fun _ => {}
  crashed : Bool := false

def upd {β} (f : Nat → β) (g : Nat) (v : β) : Nat → β := fun x => if x = g then v else f x

@[simp] theorem upd_same {β} (f : Nat → β) (g : Nat) (v : β) : upd f g v g = v := by simp [upd]
@[simp] theorem upd_other {β} (f : Nat → β) (g h : Nat) (v : β) (hne : h ≠ g) : upd f g v h = f h := by simp [upd, hne]

def init : State := {}

def setSt (j : JobSt) (v : Nat) : JobSt := { j with st := v, hist := v :: j.hist }

def step (s : State) : Ev → Except String State
  | .newJob g j ch =>
    let _ := g
    if (s.jobs j).exist then .error "job created twice"
    else match ch with
      | some c =>
        if (s.chans c).exist then .error "response channel already in use"
        else .ok { s with jobs := upd s.jobs j { exist := true, wg := 1, chan := some c }, chans := upd s.chans c { exist := true } }
      | none => .ok { s with jobs := upd s.jobs j { exist := true, wg := 1 } }
  | .newBatch g b n ch =>
    if (s.batches b).exist then .error "batch created twice"
    else match ch with
      | some c =>
        if (s.chans c).exist then .error "response channel already in use"
        else
          -- nothing will ever finish in an empty batch: its creator closes the stream right away
          let l := if n == 0 then { s.loc g with owesClose := some c } else s.loc g
          .ok { s with batches := upd s.batches b { exist := true, size := n, count := n, wg := n, chan := some c },
                       chans := upd s.chans c { exist := true }, loc := upd s.loc g l }
      | none => .ok { s with batches := upd s.batches b { exist := true, size := n, count := n, wg := n } }
  | .newItem g j b =>
    let _ := g
    let bs := s.batches b
    if (s.jobs j).exist then .error "job created twice"
    else if !bs.exist then .error "item of an unknown batch"
    else if bs.items.length ≥ bs.size then .error "more items than the batch was created for"
    else .ok { s with jobs := upd s.jobs j { exist := true, batch := some b, chan := bs.chan },
                      batches := upd s.batches b { bs with items := j :: bs.items } }
  | .stQueued g j =>
    let _ := g
    let js := s.jobs j
    if !js.exist then .error "status of an unknown job"
    else if js.st != created || js.claimer.isSome then .error "Queued stored on a job that is already visible"
    else .ok { s with jobs := upd s.jobs j (setSt js queued) }
  | .stParsed g j v =>
    let _ := g
    let js := s.jobs j
    if !js.exist then .error "status of an unknown job"
    else if js.hist != [0] || js.claimer.isSome then .error "parsed status stored on a job in use"
    else if v > closed then .error "invalid status value"
    else .ok { s with jobs := upd s.jobs j { setSt js v with parsedFinished := v == finished } }
  | .ldClaim g j v =>
    let js := s.jobs j
    if !js.exist then .error "claim on an unknown job"
    else if v != js.st then .error s!"claim: loaded {v}, model has {js.st}"
    else if js.claimer.isSome && js.claimer != some g then .error "a second goroutine claims the same job (it was dequeued twice)"
    else if js.claims != 0 then .error "claim() runs again on a job that was already claimed"
    else .ok { s with jobs := upd s.jobs j { js with claimer := some g }, loc := upd s.loc g { s.loc g with ld := some (j, v) } }
  | .casClaim g j old ok =>
    let js := s.jobs j
    if (s.loc g).ld != some (j, old) then .error "claim: CAS without the matching load"
    else if js.claimer != some g then .error "claim: CAS by a goroutine that is not the claimer"
    else if js.claims != 0 then .error "claim: CAS on a job that was already claimed"
    else if old == closed then .error "claim: CAS on a closed job"
    else if ok != (js.st == old) then .error s!"claim: CAS result {ok}, status is {js.st}"
    else if ok then
      .ok { s with jobs := upd s.jobs j { setSt js processing with claims := js.claims + 1 }, loc := upd s.loc g { s.loc g with ld := none } }
    else .ok { s with loc := upd s.loc g { s.loc g with ld := none } }
  | .enter g j =>
    let js := s.jobs j
    if js.claims ≤ js.entered then .error "worker function entered for a job that was not claimed"
    else if (s.loc g).running.isSome then .error "goroutine is already inside a worker function"
    else .ok { s with jobs := upd s.jobs j { js with entered := js.entered + 1 }, loc := upd s.loc g { s.loc g with running := some j } }
  | .exit g j =>
    let js := s.jobs j
    if (s.loc g).running != some j then .error "worker function exit without entry"
    else if js.exited ≥ js.entered then .error "more exits than entries"
    else .ok { s with jobs := upd s.jobs j { js with exited := js.exited + 1 } }
  | .stFinished g j =>
    let js := s.jobs j
    if (s.loc g).running != some j then .error "Finished stored by a goroutine that did not run the job"
    else if js.exited != js.entered then .error "Finished stored while the worker function is running"
    else if js.st != processing then .error s!"Finished stored on status {js.st}"
    else .ok { s with jobs := upd s.jobs j (setSt js finished), loc := upd s.loc g { s.loc g with running := none } }
  | .ldClose g j v =>
    let js := s.jobs j
    if !js.exist then .error "Close on an unknown job"
    else if v != js.st then .error s!"tryClose: loaded {v}, model has {js.st}"
    else .ok { s with loc := upd s.loc g { s.loc g with ld := some (j, v) } }
  | .casClose g j old ok =>
    let js := s.jobs j
    if (s.loc g).ld != some (j, old) then .error "tryClose: CAS without the matching load"
    else if old == processing || old == closed then .error "tryClose: CAS from processing/closed"
    else if ok != (js.st == old) then .error s!"tryClose: CAS result {ok}, status is {js.st}"
    else if (s.loc g).owesDone.isSome then .error "goroutine still owes a Done"
    else if ok then
      .ok { s with jobs := upd s.jobs j { setSt js closed with closes := js.closes + 1, cancelled := old ≤ queued },
                   loc := upd s.loc g { s.loc g with ld := none, owesDone := some j } }
    else .ok { s with loc := upd s.loc g { s.loc g with ld := none } }
  | .ack g j =>
    let js := s.jobs j
    if (s.loc g).owesDone != some j then .error "Acknowledge by a goroutine that did not close the job"
    else if js.acks != 0 then .error "Acknowledge called twice for one job"
    else .ok { s with jobs := upd s.jobs j { js with acks := js.acks + 1 } }
  | .wgDone g j =>
    let js := s.jobs j
    if (s.loc g).owesDone != some j then .error "wg.Done without having closed the job"
    else if js.batch.isSome then .error "wg.Done on the own wait group of a batch item"
    else
      let l := { s.loc g with owesDone := none, owesClose := js.chan }
      if js.wg == 0 then .ok { s with crashed := true, loc := upd s.loc g l }
      else .ok { s with jobs := upd s.jobs j { js with wg := js.wg - 1, dones := js.dones + 1 }, loc := upd s.loc g l }
  | .ldCount g b v =>
    match (s.loc g).owesDone with
    | some j =>
      if (s.jobs j).batch != some b then .error "WgCounter.Done on a foreign batch"
      else if v != (s.batches b).count then .error s!"WgCounter.Done: loaded {v}, model has {(s.batches b).count}"
      else if v == 0 then .ok { s with loc := upd s.loc g { s.loc g with owesDone := none, cnt := none } }   -- returns false, does nothing
      else .ok { s with loc := upd s.loc g { s.loc g with cnt := some (b, v) } }
    | none => .error "WgCounter.Done without having closed an item"
  | .casCount g b old ok =>
    let bs := s.batches b
    match (s.loc g).owesDone, (s.loc g).cnt with
    | some j, some (b', c) =>
      if b' != b || c != old then .error "WgCounter.Done: CAS without the matching load"
      else if old == 0 then .error "WgCounter.Done: CAS from 0"
      else if ok != (bs.count == old) then .error s!"WgCounter.Done: CAS result {ok}, count is {bs.count}"
      else if ok && (s.loc g).owesWg.isSome then .error "goroutine still owes a batch wg.Done"
      else if ok then
        .ok { s with batches := upd s.batches b { bs with count := old - 1, doneItems := j :: bs.doneItems },
                     jobs := upd s.jobs j { s.jobs j with dones := (s.jobs j).dones + 1 },
                     loc := upd s.loc g { s.loc g with owesDone := none, cnt := none, owesWg := some b,
                                                        owesClose := if old == 1 then bs.chan else none } }
      else .ok { s with loc := upd s.loc g { s.loc g with cnt := none } }
    | _, _ => .error "WgCounter.Done: CAS out of sequence"
  | .wgDoneB g b =>
    let bs := s.batches b
    if (s.loc g).owesWg != some b then .error "batch wg.Done without a successful count CAS"
    else if bs.wg == 0 then .ok { s with crashed := true, loc := upd s.loc g { s.loc g with owesWg := none } }
    else .ok { s with batches := upd s.batches b { bs with wg := bs.wg - 1 }, loc := upd s.loc g { s.loc g with owesWg := none } }
  | .closeChan g c =>
    let cs := s.chans c
    if (s.loc g).owesClose != some c then .error "response channel closed by a goroutine that has no business closing it"
    else if cs.closed then .ok { s with crashed := true, loc := upd s.loc g { s.loc g with owesClose := none } }
    else .ok { s with chans := upd s.chans c { cs with closed := true }, loc := upd s.loc g { s.loc g with owesClose := none } }
  | .sendChan g c =>
    let cs := s.chans c
    match (s.loc g).running with
    | some j =>
      if (s.jobs j).chan != some c then .error "Response.Send on a foreign channel"
      else if (s.jobs j).st != processing then .error "Response.Send outside the processing state"
      else if cs.closed then .ok { s with crashed := true }
      else .ok { s with chans := upd s.chans c { cs with sends := cs.sends + 1 } }
    | none => .error "Response.Send outside a worker function"
  | .wgWait g j =>
    let _ := g
    let js := s.jobs j
    if !js.exist then .error "Wait on an unknown job"
    else if js.wg != 0 then .error "Wait returned while the wait group counter is not zero"
    else .ok s
  | .wgWaitB g b =>
    let _ := g
    let bs := s.batches b
    if !bs.exist then .error "Wait on an unknown batch"
    else if bs.wg != 0 then .error "batch Wait returned while the wait group counter is not zero"
    else .ok s
  | .ldStatus g j v =>
    let _ := g
    if v != (s.jobs j).st then .error s!"loaded status {v}, model has {(s.jobs j).st}" else .ok s
  | .ldCountAny g b v =>
    let _ := g
    if v != (s.batches b).count then .error s!"loaded count {v}, model has {(s.batches b).count}" else .ok s

def run (s : State) : List Ev → Except String State
  | [] => .ok s
  | e :: es => match step s e with
    | .ok s' => run s' es
    | .error m => .error m

inductive Reach : State → Prop
  | init : Reach init
  | step {s s' : State} (e : Ev) : Reach s → step s e = .ok s' → Reach s'

end Job
end VarmqVerif
