// vinstr rewrites the non-test sources of goptics/varmq (root package, internal/*, utils) so that
// every synchronisation operation goes through the verifrt runtime (DESIGN.md §3.1), and writes
// a `go build -overlay` file that substitutes the rewritten copies and adds the virtual packages
// internal/verifrt{,/vsync,/vatomic} plus any harness files given with -add. Nothing is written
// into the repository.
//
// It also writes sites.json: one record per instrumented site (function, kind, operand, op), the
// input of the fact extractor.
package main

import (
	"bytes"
	"encoding/json"
	"flag"
	"fmt"
	"go/ast"
	"go/printer"
	"go/token"
	"go/types"
	"os"
	"path/filepath"
	"sort"
	"strconv"
	"strings"

	"golang.org/x/tools/go/ast/astutil"
	"golang.org/x/tools/go/packages"
)

const modPath = "github.com/goptics/varmq"
const rtPath = modPath + "/internal/verifrt"

type Site struct {
	ID   int    `json:"id"`
	Func string `json:"func"`
	Kind string `json:"kind"`
	Recv string `json:"recv"`
	Op   string `json:"op"`
	File string `json:"file"`
	Ord  int    `json:"ord"` // ordinal of this (func,kind,recv,op) within the function
}

var sites []Site
var ordCount = map[string]int{}
var unsupported []string

func addSite(fn, kind, recv, op, file string) int {
	key := fn + "|" + kind + "|" + recv + "|" + op
	ord := ordCount[key]
	ordCount[key]++
	sites = append(sites, Site{ID: len(sites), Func: fn, Kind: kind, Recv: recv, Op: op, File: file, Ord: ord})
	return len(sites) - 1
}

type addFlag []string

func (a *addFlag) String() string     { return strings.Join(*a, ",") }
func (a *addFlag) Set(s string) error { *a = append(*a, s); return nil }

func main() {
	repo := flag.String("repo", "/repo", "repository root")
	out := flag.String("out", "", "output directory (outside the repository)")
	rt := flag.String("rt", "/verif/rt/verifrt", "runtime sources")
	callPkgs := flag.String("callpkgs", "internal/queues,internal/linkedlist,internal/helpers,internal/pool,internal/linkedbuffer", "packages whose methods get call/return events")
	flag.BoolVar(&memOn, "mem", true, "wrap plain accesses to shared memory (C19)")
	var adds addFlag
	flag.Var(&adds, "add", "repoRelativePath=sourceFile : extra file to add through the overlay (repeatable)")
	flag.Parse()
	// go/packages runs the `go` found on PATH; the repository needs go >= 1.24
	os.Setenv("PATH", "/opt/veriftools/go1.26.8/bin:"+os.Getenv("PATH"))
	os.Setenv("GOTOOLCHAIN", "local")
	if *out == "" {
		fmt.Fprintln(os.Stderr, "vinstr: -out required")
		os.Exit(2)
	}
	callSet := map[string]bool{}
	for _, p := range strings.Split(*callPkgs, ",") {
		if p != "" {
			callSet[modPath+"/"+p] = true
		}
	}

	cfg := &packages.Config{
		Mode: packages.NeedName | packages.NeedFiles | packages.NeedCompiledGoFiles | packages.NeedSyntax | packages.NeedTypes | packages.NeedTypesInfo | packages.NeedImports | packages.NeedDeps,
		Dir:  *repo,
		Env:  append(os.Environ(), "GOFLAGS=-mod=mod", "GOPROXY=off", "GOSUMDB=off", "GOTOOLCHAIN=local", "PATH=/opt/veriftools/go1.26.8/bin:"+os.Getenv("PATH")),
	}
	pkgs, err := packages.Load(cfg, ".", "./internal/...", "./utils/...")
	if err != nil {
		fmt.Fprintln(os.Stderr, "vinstr: load:", err)
		os.Exit(2)
	}
	overlay := map[string]string{}
	sort.Slice(pkgs, func(i, j int) bool { return pkgs[i].PkgPath < pkgs[j].PkgPath })
	for _, p := range pkgs {
		if len(p.Errors) > 0 {
			for _, e := range p.Errors {
				fmt.Fprintln(os.Stderr, "vinstr: package error:", e)
			}
			os.Exit(3)
		}
		if strings.Contains(p.PkgPath, "/verifrt") || strings.Contains(p.PkgPath, "/verifmain") {
			continue
		}
		collectFacts(p)
		for i, f := range p.Syntax {
			fname := p.CompiledGoFiles[i]
			if strings.HasSuffix(fname, "_test.go") {
				continue
			}
			rel, _ := filepath.Rel(*repo, fname)
			rw := &rewriter{pkg: p, file: f, rel: rel, calls: callSet[p.PkgPath]}
			rw.run()
			var buf bytes.Buffer
			f.Comments = nil
			if err := printer.Fprint(&buf, p.Fset, f); err != nil {
				fmt.Fprintln(os.Stderr, "vinstr: print:", err)
				os.Exit(3)
			}
			dst := filepath.Join(*out, "src", rel)
			os.MkdirAll(filepath.Dir(dst), 0o755)
			if err := os.WriteFile(dst, buf.Bytes(), 0o644); err != nil {
				panic(err)
			}
			overlay[fname] = dst
		}
	}
	if len(unsupported) > 0 {
		for _, u := range unsupported {
			fmt.Fprintln(os.Stderr, "vinstr: unsupported construct:", u)
		}
		os.Exit(4)
	}
	// runtime sources
	filepath.Walk(*rt, func(path string, info os.FileInfo, err error) error {
		if err != nil || info.IsDir() || !strings.HasSuffix(path, ".go") {
			return nil
		}
		rel, _ := filepath.Rel(*rt, path)
		overlay[filepath.Join(*repo, "internal", "verifrt", rel)] = path
		return nil
	})
	// generated site table
	var sb strings.Builder
	sb.WriteString("package verifrt\n\nfunc init() {\n\tSites = []SiteInfo{\n")
	for _, s := range sites {
		fmt.Fprintf(&sb, "\t\t{Func: %q, Kind: %q, Recv: %q, Op: %q},\n", s.Func, s.Kind, s.Recv, s.Op)
	}
	sb.WriteString("\t}\n}\n")
	sg := filepath.Join(*out, "sites_gen.go")
	os.WriteFile(sg, []byte(sb.String()), 0o644)
	overlay[filepath.Join(*repo, "internal", "verifrt", "sites_gen.go")] = sg
	for _, a := range adds {
		kv := strings.SplitN(a, "=", 2)
		if len(kv) != 2 {
			fmt.Fprintln(os.Stderr, "vinstr: bad -add", a)
			os.Exit(2)
		}
		overlay[filepath.Join(*repo, kv[0])] = kv[1]
	}
	ob, _ := json.MarshalIndent(map[string]any{"Replace": overlay}, "", " ")
	os.WriteFile(filepath.Join(*out, "overlay.json"), ob, 0o644)
	sj, _ := json.MarshalIndent(sites, "", " ")
	os.WriteFile(filepath.Join(*out, "sites.json"), sj, 0o644)
	finishFacts()
	fj, _ := json.MarshalIndent(facts, "", " ")
	os.WriteFile(filepath.Join(*out, "facts.json"), fj, 0o644)
	fmt.Printf("vinstr: %d files, %d sites\n", len(overlay), len(sites))
}

type rewriter struct {
	pkg      *packages.Package
	file     *ast.File
	rel      string
	calls    bool
	fnStack  []string
	litCount map[string]int
	usesRT   bool
	recv2    map[*ast.UnaryExpr]bool
	mem      map[ast.Node]string // plain memory accesses to wrap: node ↦ "r" | "w"
	yieldAt  map[ast.Node]bool   // statements that call a function value (decided before rewriting)
	mapWrite map[*ast.IndexExpr]bool
}

func (rw *rewriter) fn() string {
	if len(rw.fnStack) == 0 {
		return "<pkg>"
	}
	return rw.fnStack[len(rw.fnStack)-1]
}

func (rw *rewriter) text(n ast.Node) string {
	var b bytes.Buffer
	printer.Fprint(&b, rw.pkg.Fset, n)
	return unwrapMem(strings.Join(strings.Fields(b.String()), ""))
}

// unwrapMem removes the memory-access wrappers from a printed expression:
// "(*verifrt.Rd(12,&w.x))" and "*verifrt.Wr(12,&w.x)" become "w.x".
func unwrapMem(s string) string {
	for {
		p := strings.Index(s, "*verifrt.Rd(")
		if q := strings.Index(s, "*verifrt.Wr("); q >= 0 && (p < 0 || q < p) {
			p = q
		}
		if p < 0 {
			return s
		}
		i := p + len("*verifrt.Rd(")
		for i < len(s) && s[i] >= '0' && s[i] <= '9' {
			i++
		}
		if !strings.HasPrefix(s[i:], ",&") {
			return s
		}
		i += 2
		start, depth := i, 0
		for i < len(s) {
			if s[i] == '(' || s[i] == '[' || s[i] == '{' {
				depth++
			} else if s[i] == ')' || s[i] == ']' || s[i] == '}' {
				if depth == 0 {
					break
				}
				depth--
			}
			i++
		}
		if i >= len(s) {
			return s
		}
		inner, end := s[start:i], i+1
		if p > 0 && s[p-1] == '(' && end < len(s) && s[end] == ')' {
			p, end = p-1, end+1
		}
		s = s[:p] + inner + s[end:]
	}
}

func recvBase(e ast.Expr) string {
	switch t := e.(type) {
	case *ast.StarExpr:
		return recvBase(t.X)
	case *ast.IndexExpr:
		return recvBase(t.X)
	case *ast.IndexListExpr:
		return recvBase(t.X)
	case *ast.Ident:
		return t.Name
	}
	return "?"
}

func rtSel(name string) ast.Expr {
	return &ast.SelectorExpr{X: ast.NewIdent("verifrt"), Sel: ast.NewIdent(name)}
}

func intLit(i int) ast.Expr { return &ast.BasicLit{Kind: token.INT, Value: strconv.Itoa(i)} }

func (rw *rewriter) rtCall(name string, args ...ast.Expr) *ast.CallExpr {
	rw.usesRT = true
	return &ast.CallExpr{Fun: rtSel(name), Args: args}
}

var shadowMethods = map[string]bool{
	"Load": true, "Store": true, "Add": true, "Swap": true, "CompareAndSwap": true,
	"Lock": true, "Unlock": true, "RLock": true, "RUnlock": true, "TryLock": true, "TryRLock": true,
	"Wait": true, "Broadcast": true, "Signal": true, "Done": true, "Get": true, "Put": true,
	"Do": true, // sync.Once
}

func kindOf(pkgPath, typeName string) string {
	if pkgPath == "sync/atomic" {
		return "atomic"
	}
	switch typeName {
	case "Mutex", "RWMutex":
		return "mutex"
	case "Cond":
		return "cond"
	case "WaitGroup":
		return "wg"
	case "Pool":
		return "pool"
	}
	return "sync"
}

func namedOf(t types.Type) *types.Named {
	for {
		switch u := t.(type) {
		case *types.Pointer:
			t = u.Elem()
		case *types.Named:
			return u
		case *types.Alias:
			t = types.Unalias(u)
		default:
			return nil
		}
	}
}

func (rw *rewriter) isChan(e ast.Expr) bool {
	t := rw.pkg.TypesInfo.TypeOf(e)
	if t == nil {
		return false
	}
	_, ok := t.Underlying().(*types.Chan)
	return ok
}

func (rw *rewriter) run() {
	rw.litCount = map[string]int{}
	rw.recv2 = map[*ast.UnaryExpr]bool{}
	info := rw.pkg.TypesInfo
	rw.planMem()

	pre := func(c *astutil.Cursor) bool {
		switch n := c.Node().(type) {
		case *ast.FuncDecl:
			name := n.Name.Name
			if n.Recv != nil && len(n.Recv.List) > 0 {
				name = recvBase(n.Recv.List[0].Type) + "." + name
			}
			rw.fnStack = append(rw.fnStack, name)
		case *ast.FuncLit:
			parent := rw.fn()
			root := parent
			if i := strings.IndexByte(root, '$'); i >= 0 {
				root = root[:i]
			}
			rw.litCount[root]++
			rw.fnStack = append(rw.fnStack, root+"$"+strconv.Itoa(rw.litCount[root]))
		case *ast.AssignStmt:
			if len(n.Lhs) == 2 && len(n.Rhs) == 1 {
				if u, ok := n.Rhs[0].(*ast.UnaryExpr); ok && u.Op == token.ARROW {
					rw.recv2[u] = true
				}
			}
		case *ast.ValueSpec:
			if len(n.Names) == 2 && len(n.Values) == 1 {
				if u, ok := n.Values[0].(*ast.UnaryExpr); ok && u.Op == token.ARROW {
					rw.recv2[u] = true
				}
			}
		}
		return true
	}

	post := func(c *astutil.Cursor) bool {
		switch n := c.Node().(type) {
		case *ast.FuncDecl:
			if rw.calls && n.Recv != nil && n.Body != nil {
				rw.wrapMethod(n)
			}
			rw.fnStack = rw.fnStack[:len(rw.fnStack)-1]
		case *ast.FuncLit:
			rw.fnStack = rw.fnStack[:len(rw.fnStack)-1]

		case *ast.Ident:
			if m := rw.mem[n]; m != "" {
				rw.wrapMem(c, n, m)
			}

		case *ast.SelectorExpr:
			if m := rw.mem[n]; m != "" {
				rw.wrapMem(c, n, m)
				break
			}
			// time.Ticker / time.Time / time.Now (as a value) in any position
			if id, ok := n.X.(*ast.Ident); ok {
				if pn, ok := info.Uses[id].(*types.PkgName); ok && pn.Imported().Path() == "time" {
					switch n.Sel.Name {
					case "Ticker", "Time", "Now":
						rw.usesRT = true
						c.Replace(rtSel(n.Sel.Name))
					}
				}
			}

		case *ast.CallExpr:
			rw.rewriteCall(c, n)

		case *ast.UnaryExpr:
			if n.Op == token.AND {
				if _, ok := n.X.(*ast.CompositeLit); ok {
					if t := info.TypeOf(n.X); t != nil {
						if _, ok := t.Underlying().(*types.Struct); ok {
							c.Replace(rw.rtCall("New", n))
						}
					}
				}
			} else if n.Op == token.ARROW {
				site := addSite(rw.fn(), "chan", rw.text(n.X), "recv", rw.rel)
				if rw.recv2[n] {
					c.Replace(rw.rtCall("Recv2", intLit(site), n.X))
				} else {
					c.Replace(rw.rtCall("Recv", intLit(site), n.X))
				}
			}

		case *ast.AssignStmt:
			// a call of a function value (callback: worker function, WithSafe's fn) followed by a
			// scheduling point: what the callback's result was stored into can be touched by
			// other goroutines before the caller reads it
			if c.Index() >= 0 && rw.yieldAt[n] {
				rw.usesRT = true
				c.InsertAfter(&ast.ExprStmt{X: rw.rtCall("Yield")})
			}
		case *ast.ExprStmt:
			if c.Index() >= 0 && rw.yieldAt[n] {
				rw.usesRT = true
				c.InsertAfter(&ast.ExprStmt{X: rw.rtCall("Yield")})
			}

		case *ast.SendStmt:
			site := addSite(rw.fn(), "chan", rw.text(n.Chan), "send", rw.rel)
			c.Replace(&ast.ExprStmt{X: rw.rtCall("Send", intLit(site), n.Chan, n.Value)})

		case *ast.GoStmt:
			c.Replace(rw.rewriteGo(n))

		case *ast.RangeStmt:
			if rw.isChan(n.X) {
				c.Replace(rw.rewriteRange(n))
			}

		case *ast.SelectStmt:
			c.Replace(rw.rewriteSelect(n))
		}
		return true
	}
	astutil.Apply(rw.file, pre, post)

	// imports
	fset := rw.pkg.Fset
	for _, imp := range rw.file.Imports {
		p, _ := strconv.Unquote(imp.Path.Value)
		switch p {
		case "sync":
			imp.Path.Value = strconv.Quote(rtPath + "/vsync")
			if imp.Name == nil {
				imp.Name = ast.NewIdent("sync")
			}
		case "sync/atomic":
			imp.Path.Value = strconv.Quote(rtPath + "/vatomic")
			if imp.Name == nil {
				imp.Name = ast.NewIdent("atomic")
			}
		}
	}
	if rw.usesRT {
		astutil.AddNamedImport(fset, rw.file, "verifrt", rtPath)
	}
	if !usesPkgName(rw.file, "time") {
		astutil.DeleteImport(fset, rw.file, "time")
	}
}

var memOn = true

func syncish(t types.Type) bool {
	if p, ok := t.Underlying().(*types.Pointer); ok {
		t = p.Elem()
	}
	if p, ok := t.(*types.Pointer); ok {
		t = p.Elem()
	}
	n := namedOf(t)
	if n == nil || n.Obj().Pkg() == nil {
		return false
	}
	switch n.Obj().Pkg().Path() {
	case "sync", "sync/atomic":
		return true
	}
	return false
}

// planMem decides, on the untouched syntax tree, which expressions are plain accesses to shared
// memory: fields of structs declared in this module (through any chain of struct-valued fields) and
// local variables that a function literal captures and somebody reassigns.
func (rw *rewriter) planMem() {
	rw.mem = map[ast.Node]string{}
	rw.yieldAt = map[ast.Node]bool{}
	info := rw.pkg.TypesInfo
	pkgScope := rw.pkg.Types.Scope()
	isLocal := func(v *types.Var) bool {
		return v != nil && !v.IsField() && v.Pkg() == rw.pkg.Types && v.Parent() != nil && v.Parent() != pkgScope
	}
	// captured and reassigned local variables
	captured := map[*types.Var]bool{}
	assigned := map[*types.Var]bool{}
	ast.Inspect(rw.file, func(n ast.Node) bool {
		switch x := n.(type) {
		case *ast.FuncLit:
			ast.Inspect(x.Body, func(m ast.Node) bool {
				if id, ok := m.(*ast.Ident); ok {
					if v, ok := info.Uses[id].(*types.Var); ok && isLocal(v) && (v.Pos() < x.Pos() || v.Pos() >= x.End()) {
						captured[v] = true
					}
				}
				return true
			})
		case *ast.AssignStmt:
			if x.Tok != token.DEFINE {
				for _, l := range x.Lhs {
					if id, ok := l.(*ast.Ident); ok {
						if v, ok := info.Uses[id].(*types.Var); ok {
							assigned[v] = true
						}
					}
				}
			}
		case *ast.IncDecStmt:
			if id, ok := x.X.(*ast.Ident); ok {
				if v, ok := info.Uses[id].(*types.Var); ok {
					assigned[v] = true
				}
			}
		case *ast.UnaryExpr:
			if x.Op == token.AND {
				if id, ok := x.X.(*ast.Ident); ok {
					if v, ok := info.Uses[id].(*types.Var); ok {
						assigned[v] = true
					}
				}
			}
		}
		return true
	})
	// facts: where every captured-and-reassigned variable is declared and where it is assigned (function names as
	// in the site table: root$k for the k-th function literal of root, in source order)
	{
		type span struct {
			lo, hi token.Pos
			name   string
		}
		var spans []span
		counts := map[string]int{}
		var stack []string
		var visit func(n ast.Node) bool
		visit = func(n ast.Node) bool {
			switch x := n.(type) {
			case *ast.FuncDecl:
				name := x.Name.Name
				if x.Recv != nil && len(x.Recv.List) > 0 {
					name = recvBase(x.Recv.List[0].Type) + "." + name
				}
				spans = append(spans, span{x.Pos(), x.End(), name})
				stack = append(stack, name)
				if x.Body != nil {
					ast.Inspect(x.Body, visit)
				}
				stack = stack[:len(stack)-1]
				return false
			case *ast.FuncLit:
				root := "<pkg>"
				if len(stack) > 0 {
					root = stack[len(stack)-1]
				}
				if i := strings.IndexByte(root, '$'); i >= 0 {
					root = root[:i]
				}
				counts[root]++
				name := root + "$" + strconv.Itoa(counts[root])
				spans = append(spans, span{x.Pos(), x.End(), name})
				stack = append(stack, name)
				ast.Inspect(x.Body, visit)
				stack = stack[:len(stack)-1]
				return false
			}
			return true
		}
		ast.Inspect(rw.file, visit)
		fnAt := func(p token.Pos) string {
			best := "<pkg>"
			var bestLen token.Pos = 1 << 40
			for _, sp := range spans {
				if sp.lo <= p && p < sp.hi && sp.hi-sp.lo < bestLen {
					best, bestLen = sp.name, sp.hi-sp.lo
				}
			}
			return best
		}
		assignedIn := map[*types.Var]map[string]bool{}
		ast.Inspect(rw.file, func(n ast.Node) bool {
			var ids []*ast.Ident
			switch x := n.(type) {
			case *ast.AssignStmt:
				if x.Tok != token.DEFINE {
					for _, l := range x.Lhs {
						if id, ok := l.(*ast.Ident); ok {
							ids = append(ids, id)
						}
					}
				}
			case *ast.IncDecStmt:
				if id, ok := x.X.(*ast.Ident); ok {
					ids = append(ids, id)
				}
			}
			for _, id := range ids {
				if v, ok := info.Uses[id].(*types.Var); ok && captured[v] {
					if assignedIn[v] == nil {
						assignedIn[v] = map[string]bool{}
					}
					assignedIn[v][fnAt(id.Pos())] = true
				}
			}
			return true
		})
		for v, fs := range assignedIn {
			var names []string
			for f := range fs {
				names = append(names, f)
			}
			sort.Strings(names)
			facts.Shared = append(facts.Shared, v.Name()+" "+fnAt(v.Pos())+" "+strings.Join(names, ","))
		}
	}
	inComm := 0
	pre := func(c *astutil.Cursor) bool {
		n := c.Node()
		if cc, ok := n.(*ast.CommClause); ok && cc.Comm != nil {
			_ = cc
		}
		switch x := n.(type) {
		case *ast.AssignStmt:
			if len(x.Rhs) == 1 && rw.isFuncValueCall(x.Rhs[0]) {
				rw.yieldAt[x] = true
			}
		case *ast.ExprStmt:
			if rw.isFuncValueCall(x.X) {
				rw.yieldAt[x] = true
			}
		}
		if !memOn {
			return true
		}
		e, ok := n.(ast.Expr)
		if !ok {
			return true
		}
		var ft types.Type
		switch x := e.(type) {
		case *ast.SelectorExpr:
			sel := info.Selections[x]
			if sel == nil || sel.Kind() != types.FieldVal {
				return true
			}
			f, _ := sel.Obj().(*types.Var)
			if f == nil || f.Pkg() == nil || !strings.HasPrefix(f.Pkg().Path(), modPath) {
				return true
			}
			ft = sel.Type()
			// a chain of struct-valued fields hanging off a local struct variable is private memory
			root := x.X
			for {
				if p, ok := root.(*ast.ParenExpr); ok {
					root = p.X
					continue
				}
				if s2, ok := root.(*ast.SelectorExpr); ok {
					if sl := info.Selections[s2]; sl != nil && sl.Kind() == types.FieldVal {
						if _, isStruct := sl.Type().Underlying().(*types.Struct); isStruct {
							root = s2.X
							continue
						}
					}
				}
				break
			}
			if id, ok := root.(*ast.Ident); ok {
				if v, ok := info.Uses[id].(*types.Var); ok && isLocal(v) && !captured[v] {
					if _, isStruct := v.Type().Underlying().(*types.Struct); isStruct {
						return true
					}
				}
			}
		case *ast.Ident:
			v, _ := info.Uses[x].(*types.Var)
			if v == nil || !isLocal(v) || !captured[v] || !assigned[v] {
				return true
			}
			if p, ok := c.Parent().(*ast.SelectorExpr); ok && p.Sel == x {
				return true
			}
			ft = v.Type()
		default:
			return true
		}
		if syncish(ft) {
			return true
		}
		tv, ok := info.Types[e]
		if !ok || !tv.Addressable() {
			return true
		}
		mode := "r"
		switch p := c.Parent().(type) {
		case *ast.SelectorExpr:
			// x.f.g with f a struct value: the access is to x.f.g only
			if p.X == e {
				switch ft.Underlying().(type) {
				case *types.Struct, *types.Array:
					return true
				}
			}
		case *ast.UnaryExpr:
			if p.Op == token.AND {
				return true
			}
		case *ast.AssignStmt:
			if c.Name() == "Lhs" {
				if p.Tok == token.DEFINE {
					return true
				}
				mode = "w"
			}
		case *ast.IncDecStmt:
			mode = "w"
		case *ast.RangeStmt:
			if p.Key == e || p.Value == e {
				return true
			}
		case *ast.IndexExpr:
			if p.X == e {
				switch ft.Underlying().(type) {
				case *types.Array:
					return true
				case *types.Map:
					if rw.mapWrite[p] {
						mode = "w"
					}
				}
			}
		case *ast.CallExpr:
			if id, ok := p.Fun.(*ast.Ident); ok && len(p.Args) > 0 && p.Args[0] == e {
				if _, isB := info.Uses[id].(*types.Builtin); isB && (id.Name == "delete" || id.Name == "clear") {
					mode = "w"
				}
			}
		}
		rw.mem[e] = mode
		return true
	}
	// map element assignments: m[k] = v, m[k]++, m[k] op= v
	rw.mapWrite = map[*ast.IndexExpr]bool{}
	ast.Inspect(rw.file, func(n ast.Node) bool {
		switch x := n.(type) {
		case *ast.AssignStmt:
			for _, l := range x.Lhs {
				if ix, ok := l.(*ast.IndexExpr); ok {
					rw.mapWrite[ix] = true
				}
			}
		case *ast.IncDecStmt:
			if ix, ok := x.X.(*ast.IndexExpr); ok {
				rw.mapWrite[ix] = true
			}
		}
		return true
	})
	// the communication statements of select are rewritten as a whole: leave them alone
	commDepth := map[ast.Node]bool{}
	ast.Inspect(rw.file, func(n ast.Node) bool {
		if cc, ok := n.(*ast.CommClause); ok && cc.Comm != nil {
			commDepth[cc.Comm] = true
		}
		return true
	})
	astutil.Apply(rw.file, func(c *astutil.Cursor) bool {
		if commDepth[c.Node()] {
			inComm++
		}
		return pre(c)
	}, func(c *astutil.Cursor) bool {
		if commDepth[c.Node()] {
			inComm--
		}
		return true
	})
}

func (rw *rewriter) wrapMem(c *astutil.Cursor, e ast.Expr, mode string) {
	name := "Rd"
	if mode == "w" {
		name = "Wr"
	}
	site := addSite(rw.fn(), "mem", rw.text(e), mode, rw.rel)
	call := rw.rtCall(name, intLit(site), &ast.UnaryExpr{Op: token.AND, X: e})
	var out ast.Expr = &ast.StarExpr{X: call}
	if mode == "r" {
		out = &ast.ParenExpr{X: out}
	} else if _, isAssignLhs := c.Parent().(*ast.AssignStmt); !isAssignLhs {
		out = &ast.ParenExpr{X: out}
	}
	if tv, ok := rw.pkg.TypesInfo.Types[e]; ok {
		rw.pkg.TypesInfo.Types[out] = tv
	}
	c.Replace(out)
}

// isFuncValueCall: e is a call whose callee is a variable or parameter of function type
func (rw *rewriter) isFuncValueCall(e ast.Expr) bool {
	call, ok := e.(*ast.CallExpr)
	if !ok {
		return false
	}
	if sel, ok := call.Fun.(*ast.SelectorExpr); ok {
		if s := rw.pkg.TypesInfo.Selections[sel]; s != nil && s.Kind() == types.FieldVal {
			_, isSig := s.Type().Underlying().(*types.Signature)
			return isSig
		}
		return false
	}
	id, ok := call.Fun.(*ast.Ident)
	if !ok {
		return false
	}
	v, ok := rw.pkg.TypesInfo.Uses[id].(*types.Var)
	if !ok {
		return false
	}
	_, isSig := v.Type().Underlying().(*types.Signature)
	return isSig
}

func usesPkgName(f *ast.File, name string) bool {
	used := false
	ast.Inspect(f, func(n ast.Node) bool {
		if s, ok := n.(*ast.SelectorExpr); ok {
			if id, ok := s.X.(*ast.Ident); ok && id.Name == name && id.Obj == nil {
				used = true
			}
		}
		return !used
	})
	return used
}

func (rw *rewriter) rewriteCall(c *astutil.Cursor, n *ast.CallExpr) {
	info := rw.pkg.TypesInfo
	// builtins
	if id, ok := n.Fun.(*ast.Ident); ok {
		if _, isB := info.Uses[id].(*types.Builtin); isB {
			switch id.Name {
			case "close":
				site := addSite(rw.fn(), "chan", rw.text(n.Args[0]), "close", rw.rel)
				c.Replace(rw.rtCall("Close", intLit(site), n.Args[0]))
			case "make":
				if t := info.TypeOf(n); t != nil {
					if _, ok := t.Underlying().(*types.Chan); ok {
						target := rw.fn()
						// name after the assignment target / composite-literal key when there is one
						switch p := c.Parent().(type) {
						case *ast.KeyValueExpr:
							target = rw.text(p.Key)
						case *ast.AssignStmt:
							if len(p.Lhs) == 1 {
								target = rw.text(p.Lhs[0])
								if i := strings.LastIndexByte(target, '.'); i >= 0 {
									target = target[i+1:]
								}
							}
						}
						fnb := rw.fn()
						if i := strings.LastIndexByte(fnb, '.'); i >= 0 {
							fnb = fnb[i+1:]
						}
						if target == rw.fn() {
							target = fnb
						} else if target == "ch" || target == "err" {
							target = fnb + "." + target
						}
						site := addSite(rw.fn(), "chan", target, "make", rw.rel)
						c.Replace(rw.rtCall("MakeChan", intLit(site), n))
					}
				}
			case "new":
				if t := info.TypeOf(n); t != nil {
					if pt, ok := t.Underlying().(*types.Pointer); ok {
						if _, ok := pt.Elem().Underlying().(*types.Struct); ok {
							c.Replace(rw.rtCall("New", n))
						}
					}
				}
			}
			return
		}
	}
	// context.CancelFunc calls
	if ft := info.TypeOf(n.Fun); ft != nil {
		if nt, ok := ft.(*types.Named); ok && nt.Obj().Pkg() != nil && nt.Obj().Pkg().Path() == "context" && nt.Obj().Name() == "CancelFunc" {
			site := addSite(rw.fn(), "ctx", rw.text(n.Fun), "cancel", rw.rel)
			c.Replace(rw.rtCall("Cancel", intLit(site), n.Fun))
			return
		}
	}
	sel, ok := n.Fun.(*ast.SelectorExpr)
	if !ok {
		return
	}
	// package-level functions of time (after the SelectorExpr pass `time.NewTicker` is untouched)
	if id, ok := sel.X.(*ast.Ident); ok {
		if pn, ok := info.Uses[id].(*types.PkgName); ok {
			switch pn.Imported().Path() {
			case "time":
				switch sel.Sel.Name {
				case "NewTicker":
					site := addSite(rw.fn(), "time", "", "NewTicker", rw.rel)
					c.Replace(rw.rtCall("NewTicker", append([]ast.Expr{intLit(site)}, n.Args...)...))
				case "Sleep", "After", "AfterFunc", "NewTimer", "Tick", "Since", "Until":
					unsupported = append(unsupported, rw.rel+": time."+sel.Sel.Name+" in "+rw.fn())
				}
			case "sync/atomic":
				unsupported = append(unsupported, rw.rel+": package-level atomic."+sel.Sel.Name+" in "+rw.fn())
			}
			return
		}
		// verifrt.Now etc. produced by the SelectorExpr pass: X is ident "verifrt" without Uses
	}
	// methods on shadowed types
	s := info.Selections[sel]
	if s == nil {
		return
	}
	fobj, ok := s.Obj().(*types.Func)
	if !ok || fobj.Pkg() == nil {
		return
	}
	pp := fobj.Pkg().Path()
	if pp != "sync" && pp != "sync/atomic" && pp != "time" {
		return
	}
	named := namedOf(s.Recv())
	tname := "?"
	if named != nil {
		tname = named.Obj().Name()
	}
	if pp == "time" {
		if tname == "Ticker" && sel.Sel.Name == "Stop" {
			site := addSite(rw.fn(), "time", rw.text(sel.X), "Stop", rw.rel)
			sel.Sel = ast.NewIdent("VStop")
			n.Args = append([]ast.Expr{intLit(site)}, n.Args...)
		}
		return
	}
	if !shadowMethods[sel.Sel.Name] {
		unsupported = append(unsupported, rw.rel+": "+pp+"."+tname+"."+sel.Sel.Name+" in "+rw.fn())
		return
	}
	site := addSite(rw.fn(), kindOf(pp, tname), rw.text(sel.X), sel.Sel.Name, rw.rel)
	sel.Sel = ast.NewIdent("V" + sel.Sel.Name)
	n.Args = append([]ast.Expr{intLit(site)}, n.Args...)
}

func (rw *rewriter) rewriteGo(n *ast.GoStmt) ast.Stmt {
	site := addSite(rw.fn(), "go", rw.text(n.Call.Fun)[:min(40, len(rw.text(n.Call.Fun)))], "go", rw.rel)
	var stmts []ast.Stmt
	fun := n.Call.Fun
	if _, isLit := fun.(*ast.FuncLit); !isLit {
		stmts = append(stmts, &ast.AssignStmt{Lhs: []ast.Expr{ast.NewIdent("__gof")}, Tok: token.DEFINE, Rhs: []ast.Expr{fun}})
		fun = ast.NewIdent("__gof")
	}
	var args []ast.Expr
	for i, a := range n.Call.Args {
		v := ast.NewIdent("__goa" + strconv.Itoa(i))
		stmts = append(stmts, &ast.AssignStmt{Lhs: []ast.Expr{v}, Tok: token.DEFINE, Rhs: []ast.Expr{a}})
		args = append(args, v)
	}
	inner := &ast.CallExpr{Fun: fun, Args: args, Ellipsis: n.Call.Ellipsis}
	if _, isLit := fun.(*ast.FuncLit); isLit {
		inner.Fun = &ast.ParenExpr{X: fun}
	}
	body := &ast.FuncLit{Type: &ast.FuncType{Params: &ast.FieldList{}}, Body: &ast.BlockStmt{List: []ast.Stmt{&ast.ExprStmt{X: inner}}}}
	stmts = append(stmts, &ast.ExprStmt{X: rw.rtCall("Go", intLit(site), body)})
	return &ast.BlockStmt{List: stmts}
}

func (rw *rewriter) rewriteRange(n *ast.RangeStmt) ast.Stmt {
	site := addSite(rw.fn(), "chan", rw.text(n.X), "range", rw.rel)
	chv := ast.NewIdent("__rch")
	okv := ast.NewIdent("__rok")
	var key ast.Expr = ast.NewIdent("_")
	tok := token.DEFINE
	if n.Key != nil {
		key = n.Key
		if n.Tok == token.ASSIGN {
			// `for x = range ch`: x exists; ok must be declared separately
			tok = token.ASSIGN
		}
	}
	var recv ast.Stmt
	if tok == token.ASSIGN {
		recv = &ast.BlockStmt{List: []ast.Stmt{}}
		unsupported = append(unsupported, rw.rel+": range over channel with '=' in "+rw.fn())
	} else {
		recv = &ast.AssignStmt{Lhs: []ast.Expr{key, okv}, Tok: token.DEFINE, Rhs: []ast.Expr{rw.rtCall("Recv2", intLit(site), chv)}}
	}
	brk := &ast.IfStmt{Cond: &ast.UnaryExpr{Op: token.NOT, X: okv}, Body: &ast.BlockStmt{List: []ast.Stmt{&ast.BranchStmt{Tok: token.BREAK}}}}
	body := append([]ast.Stmt{recv, brk}, n.Body.List...)
	return &ast.BlockStmt{List: []ast.Stmt{
		&ast.AssignStmt{Lhs: []ast.Expr{chv}, Tok: token.DEFINE, Rhs: []ast.Expr{n.X}},
		&ast.ForStmt{Body: &ast.BlockStmt{List: body}},
	}}
}

func (rw *rewriter) rewriteSelect(n *ast.SelectStmt) ast.Stmt {
	var def *ast.CommClause
	var comms []*ast.CommClause
	for _, s := range n.Body.List {
		cc := s.(*ast.CommClause)
		if cc.Comm == nil {
			def = cc
		} else {
			comms = append(comms, cc)
		}
	}
	// NOTE: by the time we get here the comm statements have already been rewritten by the
	// post-order pass (SendStmt -> ExprStmt(verifrt.Send(site, ch, v)); <-ch -> verifrt.Recv).
	// Recover the operands from those calls.
	type cinfo struct {
		send    bool
		ch, val ast.Expr
		lhs     []ast.Expr
		tok     token.Token
	}
	parse := func(st ast.Stmt) (cinfo, bool) {
		var call *ast.CallExpr
		var ci cinfo
		switch s := st.(type) {
		case *ast.ExprStmt:
			call, _ = s.X.(*ast.CallExpr)
		case *ast.AssignStmt:
			if len(s.Rhs) == 1 {
				call, _ = s.Rhs[0].(*ast.CallExpr)
			}
			ci.lhs = s.Lhs
			ci.tok = s.Tok
		}
		if call == nil {
			return ci, false
		}
		sel, ok := call.Fun.(*ast.SelectorExpr)
		if !ok {
			return ci, false
		}
		switch sel.Sel.Name {
		case "Send":
			ci.send = true
			ci.ch, ci.val = call.Args[1], call.Args[2]
		case "Recv", "Recv2":
			ci.ch = call.Args[1]
		default:
			return ci, false
		}
		return ci, true
	}
	// the sites allocated for the inner Send/Recv stay in the table (unused); allocate one for the select
	if len(comms) == 1 && def != nil {
		if ci, ok := parse(comms[0].Comm); ok && ci.send {
			site := addSite(rw.fn(), "chan", rw.text(ci.ch), "trysend", rw.rel)
			return &ast.IfStmt{
				Cond: rw.rtCall("TrySend", intLit(site), ci.ch, ci.val),
				Body: &ast.BlockStmt{List: comms[0].Body},
				Else: &ast.BlockStmt{List: def.Body},
			}
		}
	}
	site := addSite(rw.fn(), "chan", "", "select", rw.rel)
	args := []ast.Expr{intLit(site), ast.NewIdent(strconv.FormatBool(def != nil))}
	var clauses []ast.Stmt
	for i, cc := range comms {
		ci, ok := parse(cc.Comm)
		if !ok {
			unsupported = append(unsupported, rw.rel+": select case shape in "+rw.fn())
			continue
		}
		body := cc.Body
		if ci.send {
			args = append(args, rw.rtCall("CaseSend", ci.ch, ci.val))
		} else {
			args = append(args, rw.rtCall("CaseRecv", ci.ch))
			if len(ci.lhs) > 0 {
				t := rw.pkg.TypesInfo.TypeOf(ci.lhs[0])
				ts := "any"
				if t != nil {
					ts = types.TypeString(t, func(p *types.Package) string {
						if p == rw.pkg.Types {
							return ""
						}
						return p.Name()
					})
				}
				conv := &ast.CallExpr{Fun: &ast.IndexExpr{X: rtSel("SelVal"), Index: ast.NewIdent(ts)}, Args: []ast.Expr{ast.NewIdent("__selv")}}
				rhs := []ast.Expr{conv}
				if len(ci.lhs) == 2 {
					rhs = append(rhs, ast.NewIdent("__selok"))
				}
				body = append([]ast.Stmt{&ast.AssignStmt{Lhs: ci.lhs, Tok: ci.tok, Rhs: rhs}}, body...)
			}
		}
		clauses = append(clauses, &ast.CaseClause{List: []ast.Expr{intLit(i)}, Body: body})
	}
	if def != nil {
		clauses = append(clauses, &ast.CaseClause{Body: def.Body})
	}
	rw.usesRT = true
	init := &ast.AssignStmt{
		Lhs: []ast.Expr{ast.NewIdent("__seli"), ast.NewIdent("__selv"), ast.NewIdent("__selok")},
		Tok: token.DEFINE,
		Rhs: []ast.Expr{&ast.CallExpr{Fun: rtSel("Select"), Args: args}},
	}
	use := &ast.AssignStmt{Lhs: []ast.Expr{ast.NewIdent("_"), ast.NewIdent("_")}, Tok: token.ASSIGN, Rhs: []ast.Expr{ast.NewIdent("__selv"), ast.NewIdent("__selok")}}
	return &ast.BlockStmt{List: []ast.Stmt{init, use, &ast.SwitchStmt{Tag: ast.NewIdent("__seli"), Body: &ast.BlockStmt{List: clauses}}}}
}

// wrapMethod adds call/return events to a leaf-container method.
func (rw *rewriter) wrapMethod(n *ast.FuncDecl) {
	if len(n.Recv.List) == 0 || len(n.Recv.List[0].Names) == 0 {
		return
	}
	recvName := n.Recv.List[0].Names[0].Name
	if recvName == "_" {
		return
	}
	fn := recvBase(n.Recv.List[0].Type) + "." + n.Name.Name
	site := addSite(fn, "call", recvName, n.Name.Name, rw.rel)
	args := []ast.Expr{intLit(site), ast.NewIdent(recvName)}
	if n.Type.Params != nil {
		for _, f := range n.Type.Params.List {
			if _, isFunc := f.Type.(*ast.FuncType); isFunc {
				continue
			}
			for _, nm := range f.Names {
				if nm.Name != "_" {
					args = append(args, ast.NewIdent(nm.Name))
				}
			}
		}
	}
	var resPtrs []ast.Expr
	if n.Type.Results != nil {
		k := 0
		for _, f := range n.Type.Results.List {
			if len(f.Names) == 0 {
				f.Names = []*ast.Ident{ast.NewIdent("__r" + strconv.Itoa(k))}
				k++
			}
			for i, nm := range f.Names {
				if nm.Name == "_" {
					f.Names[i] = ast.NewIdent("__r" + strconv.Itoa(k))
					k++
				}
				resPtrs = append(resPtrs, &ast.UnaryExpr{Op: token.AND, X: ast.NewIdent(f.Names[i].Name)})
			}
		}
	}
	call := rw.rtCall("Call", args...)
	ret := rw.rtCall("Ret", append([]ast.Expr{call}, resPtrs...)...)
	n.Body.List = append([]ast.Stmt{&ast.DeferStmt{Call: ret}}, n.Body.List...)
}


// ---------------------------------------------------------------- facts (translator input, DESIGN.md §3.2)

type Facts struct {
	Consts              map[string]int64    `json:"consts"`
	JobStatusStrings    [][2]any            `json:"jobStatusStrings"`
	WorkerStatusStrings [][2]any            `json:"workerStatusStrings"`
	ParseStatusStrings  [][2]any            `json:"parseStatusStrings"`
	RegisterCalls       map[string]int      `json:"registerCalls"`
	Guards              map[string][]string `json:"guardsByFunc"`
	Calls               map[string][]string `json:"callsByFunc"`
	Shared              []string            `json:"sharedVars"` // "var declared-in assigned-in,…" for captured variables that are reassigned
}

var facts = Facts{Consts: map[string]int64{}, RegisterCalls: map[string]int{}, Guards: map[string][]string{}, Calls: map[string][]string{}}

// collectCalls records, per function and per function literal (named root$k as the sites are), the
// names of the functions called, in source order.
func collectCalls(root string, body ast.Node) {
	counter := 0
	var walk func(name string, n ast.Node)
	walk = func(name string, n ast.Node) {
		ast.Inspect(n, func(x ast.Node) bool {
			switch x := x.(type) {
			case *ast.FuncLit:
				counter++
				walk(root+"$"+strconv.Itoa(counter), x.Body)
				return false
			case *ast.CallExpr:
				callee := ""
				switch fn := x.Fun.(type) {
				case *ast.Ident:
					callee = fn.Name
				case *ast.SelectorExpr:
					callee = fn.Sel.Name
				case *ast.IndexExpr:
					if id, ok := fn.X.(*ast.Ident); ok {
						callee = id.Name
					}
				}
				if callee != "" {
					facts.Calls[name] = append(facts.Calls[name], callee)
				}
			}
			return true
		})
	}
	walk(root, body)
}

type fnode struct {
	name    string
	callees []types.Object
	regs    int
}

var fgraph = map[types.Object]*fnode{}

func exprText(fset *token.FileSet, n ast.Node) string {
	var b bytes.Buffer
	printer.Fprint(&b, fset, n)
	return strings.Join(strings.Fields(b.String()), "")
}

func constInt(info *types.Info, e ast.Expr) (int64, bool) {
	if tv, ok := info.Types[e]; ok && tv.Value != nil {
		if s := tv.Value.ExactString(); s != "" {
			if v, err := strconv.ParseInt(s, 10, 64); err == nil {
				return v, true
			}
		}
	}
	return 0, false
}

func collectFacts(p *packages.Package) {
	info := p.TypesInfo
	fset := p.Fset
	for i, f := range p.Syntax {
		if strings.HasSuffix(p.CompiledGoFiles[i], "_test.go") {
			continue
		}
		for _, d := range f.Decls {
			switch d := d.(type) {
			case *ast.GenDecl:
				for _, sp := range d.Specs {
					vs, ok := sp.(*ast.ValueSpec)
					if !ok {
						continue
					}
					for k, nm := range vs.Names {
						if d.Tok == token.CONST {
							if c, ok := info.Defs[nm].(*types.Const); ok {
								if v, err := strconv.ParseInt(c.Val().ExactString(), 10, 64); err == nil {
									facts.Consts[p.Types.Name()+"."+nm.Name] = v
								}
							}
						} else if k < len(vs.Values) {
							if v, ok := constInt(info, vs.Values[k]); ok {
								facts.Consts[p.Types.Name()+"."+nm.Name] = v
							}
						}
					}
				}
			case *ast.FuncDecl:
				name := d.Name.Name
				if d.Recv != nil && len(d.Recv.List) > 0 {
					name = recvBase(d.Recv.List[0].Type) + "." + name
				}
				obj := info.Defs[d.Name]
				node := &fnode{name: name}
				if obj != nil {
					fgraph[obj] = node
				}
				if d.Body == nil {
					continue
				}
				collectCalls(name, d.Body)
				var conds []string
				ast.Inspect(d.Body, func(n ast.Node) bool {
					switch n := n.(type) {
					case *ast.IfStmt:
						conds = append(conds, "if:"+exprText(fset, n.Cond))
					case *ast.ForStmt:
						if n.Cond != nil {
							conds = append(conds, "for:"+exprText(fset, n.Cond))
						}
					case *ast.ReturnStmt:
						if name == "heapQueue.Less" || name == "WgCounter.Done" {
							for _, r := range n.Results {
								conds = append(conds, "ret:"+exprText(fset, r))
							}
						}
					case *ast.CallExpr:
						var id *ast.Ident
						switch fn := n.Fun.(type) {
						case *ast.Ident:
							id = fn
						case *ast.SelectorExpr:
							id = fn.Sel
						case *ast.IndexExpr:
							if x, ok := fn.X.(*ast.Ident); ok {
								id = x
							}
						}
						if id != nil {
							if id.Name == "Register" {
								node.regs++
							} else if o := info.Uses[id]; o != nil {
								if fo, ok := o.(*types.Func); ok {
									if org := fo.Origin(); org != nil {
										node.callees = append(node.callees, org)
									} else {
										node.callees = append(node.callees, fo)
									}
								}
							}
						}
					case *ast.SwitchStmt:
						// status string tables
						if d.Name.Name == "Status" || d.Name.Name == "parseToJob" {
							for _, cs := range n.Body.List {
								cc := cs.(*ast.CaseClause)
								if len(cc.List) != 1 || len(cc.Body) == 0 {
									continue
								}
								if d.Name.Name == "Status" {
									v, ok1 := constInt(info, cc.List[0])
									rs, ok2 := cc.Body[0].(*ast.ReturnStmt)
									if ok1 && ok2 && len(rs.Results) == 1 {
										if bl, ok := rs.Results[0].(*ast.BasicLit); ok {
											str, _ := strconv.Unquote(bl.Value)
											if strings.HasPrefix(name, "worker.") {
												facts.WorkerStatusStrings = append(facts.WorkerStatusStrings, [2]any{v, str})
											} else {
												facts.JobStatusStrings = append(facts.JobStatusStrings, [2]any{v, str})
											}
										}
									}
								} else {
									bl, ok1 := cc.List[0].(*ast.BasicLit)
									es, ok2 := cc.Body[0].(*ast.ExprStmt)
									if ok1 && ok2 {
										if call, ok := es.X.(*ast.CallExpr); ok && len(call.Args) == 1 {
											if v, ok := constInt(info, call.Args[0]); ok {
												str, _ := strconv.Unquote(bl.Value)
												facts.ParseStatusStrings = append(facts.ParseStatusStrings, [2]any{v, str})
											}
										}
									}
								}
							}
						}
					}
					return true
				})
				if len(conds) > 0 {
					facts.Guards[name] = conds
				}
			}
		}
	}
}

func finishFacts() {
	memo := map[*fnode]int{}
	var count func(n *fnode, depth int) int
	count = func(n *fnode, depth int) int {
		if v, ok := memo[n]; ok {
			return v
		}
		if depth > 12 {
			return 0
		}
		memo[n] = 0
		c := n.regs
		for _, o := range n.callees {
			if m, ok := fgraph[o]; ok {
				c += count(m, depth+1)
			}
		}
		memo[n] = c
		return c
	}
	for _, n := range fgraph {
		base := n.name
		if i := strings.IndexByte(base, '.'); i >= 0 {
			base = base[i+1:]
		}
		if (strings.HasPrefix(base, "With") || strings.HasPrefix(base, "Bind")) && strings.Contains(n.name, "inder.") {
			facts.RegisterCalls[n.name] = count(n, 0)
		}
	}
}
